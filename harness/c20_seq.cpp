// C20 parts 3 and 4 — script-driven actions have the same effect as the configuration-file / engine-driven path.
// Every operation exists in two forms: through the script interface, and directly on the engine-side/API path.
// Part 3: single actions from several module states (configuration texts whole and piecewise, good and bad; forces
// added from the engine's force callback; state loaded into a fresh module; deletions and reset).
// Part 4: ALL sequences over the operation alphabet up to a depth bound, script path vs direct path, followed by
// two steps; plus `cv list` against the internal lists and (scenario A) values against own arithmetic.
#include "c20_common.h"

enum K { STEP, CFGX, ADDF0, ADDF1, DELB0, DELB1, DELC0, DELC1, SAVELOAD, ACT_OFF, ACT_ON, GETACT, UPDATE, RESET, CFGALL, CVDELETE, LOADFILE, NOPS };
static const char *KN[NOPS] = {"step", "cv config <one more bias>", "cv colvar <1st> addforce", "cv colvar <2nd> addforce", "cv bias <1st> delete",
                               "cv bias <2nd> delete", "cv colvar <1st> delete", "cv colvar <2nd> delete", "cv savetostring + cv loadfromstring",
                               "cv colvar <1st> set active 0", "cv colvar <1st> set active 1", "cv colvar <1st> get active", "cv update", "cv reset",
                               "cv config <whole scenario>", "cv delete", "cv load <state file of a donor run>"};

static std::string force_text(Scn const &sc, int vi)
{
  static const char *F[3][2] = {{"0.25", "0.1 0.2 0.3"}, {"0.25", "0.1 0.2 0.3 0.4"}, {"0.25", "0.1 0.2 0.3 0.4 0.5 0.6"}};
  return F[sc.id == "A" ? 0 : (sc.id == "B" ? 1 : 2)][vi];
}

struct Run {
  vproxy *px; Scn const *sc; long next = 0; bool script;
  std::string log;       // per-operation outcome (accepted / rejected), compared between the two paths
  std::string problem;   // agreement problem seen inside the run
  bool deact0 = false;   // the user switched the first variable off
};

static void direct_guard_begin() { cvm::clear_error(); }
static int direct_guard_end() { int e = cvm::get_error(); cvm::clear_error(); return e; }

// accepted = returned OK and raised no error
static bool okS(SR const &s) { return s.rc == 0 && s.errbits == 0; }

static void apply(Run &r, int op)
{
  vproxy &px = *r.px;
  Scn const &sc = *r.sc;
  bool ok = true;
  switch (op) {
  case STEP: { place(px, r.next); int rc = px.step(r.next); r.next++; ok = (rc == 0); break; }
  case CFGX: case CFGALL: {
    std::string t = op == CFGX ? sc.xc : all_conf(sc);
    if (r.script) ok = okS(cvs(px, W({"cv", "config", t}))); else ok = px.config(t) == 0;
    break;
  }
  case ADDF0: case ADDF1: {
    int vi = op == ADDF0 ? 0 : 1;
    std::string ft = force_text(sc, vi);
    if (r.script) ok = okS(cvs(px, W({"cv", "colvar", sc.cvn[vi], "addforce", ft})));
    else {
      colvar *cv = px.cv(sc.cvn[vi]);
      ok = cv != NULL;
      if (cv) {
        direct_guard_begin();
        colvarvalue f(cv->value());
        f.is_derivative();
        std::vector<double> c; { std::istringstream is(ft); double d; while (is >> d) c.push_back(d); }
        switch (f.type()) {
        case colvarvalue::type_scalar: f.real_value = c[0]; break;
        case colvarvalue::type_3vector: case colvarvalue::type_unit3vector: case colvarvalue::type_unit3vectorderiv: f.rvector_value = cvm::rvector(c[0], c[1], c[2]); break;
        case colvarvalue::type_quaternion: case colvarvalue::type_quaternionderiv: f.quaternion_value = cvm::quaternion(c[0], c[1], c[2], c[3]); break;
        default: for (size_t i = 0; i < c.size() && i < f.vector1d_value.size(); i++) f.vector1d_value[i] = c[i];
        }
        cv->enable(colvardeps::f_cv_apply_force);
        cv->add_bias_force(f);
        ok = direct_guard_end() == 0;
      }
    }
    break;
  }
  case DELB0: case DELB1: {
    std::string n = sc.bn[op - DELB0];
    if (r.script) ok = okS(cvs(px, W({"cv", "bias", n, "delete"})));
    else { colvarbias *b = px.bias(n); ok = b != NULL; if (b) { direct_guard_begin(); delete b; ok = direct_guard_end() == 0; } }
    break;
  }
  case DELC0: case DELC1: {
    std::string n = sc.cvn[op - DELC0];
    if (op == DELC0) r.deact0 = false;
    if (r.script) ok = okS(cvs(px, W({"cv", "colvar", n, "delete"})));
    else { colvar *c = px.cv(n); ok = c != NULL; if (c) { direct_guard_begin(); delete c; ok = direct_guard_end() == 0; } }
    break;
  }
  case SAVELOAD: {
    std::string saved;
    if (r.script) {
      SR s = cvs(px, W({"cv", "savetostring"}));
      ok = s.rc == 0;
      saved = s.out;
      if (ok) ok = okS(cvs(px, W({"cv", "loadfromstring", s.out})));
    } else {
      std::string t = px.state_text();
      saved = t;
      direct_guard_begin();
      px.input_stream_from_string("input state string", t);
      int rc = px.colvars->setup_input();
      ok = (direct_guard_end() | rc) == 0;
    }
    // loading the string just saved is the identity: saving again gives the same text (whatever was loaded before)
    // (only for a module that has computed at least one step: before that the state holds place-holder values)
    if (ok && r.problem.empty() && px.colvars->variables()->size() && r.next > 0) {
      std::string again = px.state_text();
      auto squeeze = [](std::string const &t) { std::string o; bool sp = true; for (char ch : t) { bool w = (ch == ' ' || ch == '\n' || ch == '\t'); if (w) { if (!sp) o += ' '; sp = true; } else { o += ch; sp = false; } } return o; };
      if (squeeze(again) != squeeze(saved)) r.problem = "state-differs-after-loading-the-string-just-saved: " + first_diff(squeeze(saved), squeeze(again)).substr(0, 200);
    }
    break;
  }
  case LOADFILE: {
    if (r.script) ok = okS(cvs(px, W({"cv", "load", sc.prefix})));
    else {
      direct_guard_begin();
      int rc = px.set_input_prefix(cvm::state_file_prefix(sc.prefix.c_str()));
      rc |= px.colvars->setup_input();
      int e = direct_guard_end() | rc;
      if (e) px.set_input_prefix("");   // (what cv load does when loading fails)
      ok = e == 0;
    }
    break;
  }
  case ACT_OFF: case ACT_ON: {
    std::string n = sc.cvn[0];
    if (px.cv(n)) r.deact0 = (op == ACT_OFF);
    if (r.script) ok = okS(cvs(px, W({"cv", "colvar", n, "set", "active", op == ACT_ON ? "1" : "0"})));
    else {
      colvar *c = px.cv(n); ok = c != NULL;
      if (c) { direct_guard_begin(); int rc = op == ACT_ON ? c->enable(colvardeps::f_cv_active) : c->disable(colvardeps::f_cv_active); (void) rc; ok = direct_guard_end() == 0; }
    }
    break;
  }
  case GETACT: {
    colvar *c = px.cv(sc.cvn[0]);
    if (r.script) {
      SR s = cvs(px, W({"cv", "colvar", sc.cvn[0], "get", "active"}));
      ok = s.rc == 0;
      if (c && (s.rc != 0 || s.out != (c->is_enabled(colvardeps::f_cv_active) ? "1" : "0")) && r.problem.empty())
        r.problem = "get-active-disagrees-with-internal-flag: script gave \"" + s.out + "\"";
    } else ok = c != NULL;
    break;
  }
  case UPDATE: {
    if (r.script) ok = okS(cvs(px, W({"cv", "update"})));
    else { direct_guard_begin(); int rc = px.update_input(); if (!rc) rc = px.colvars->calc(); if (!rc) rc = px.update_output(); ok = (direct_guard_end() | rc) == 0; }
    break;
  }
  case RESET: {
    r.deact0 = false;
    if (r.script) ok = okS(cvs(px, W({"cv", "reset"})));
    else { direct_guard_begin(); int rc = px.colvars->reset(); ok = (direct_guard_end() | rc) == 0; }
    break;
  }
  case CVDELETE: {
    // only meaningful in VMD: must be refused and change nothing
    if (r.script) { SR s = cvs(px, W({"cv", "delete"})); if (s.rc == 0 && r.problem.empty()) r.problem = "cv-delete-accepted-outside-VMD"; }
    ok = false;
    break;
  }
  }
  r.log += ok ? "+" : "-";
}

// own arithmetic for scenario A
static bool own_value(vproxy &px, std::string const &n, std::vector<double> &o)
{
  auto X = [&](int a) { return px.x[a]; };
  if (n == "d") {
    double m1 = px.m[0], m2 = px.m[1];
    cvm::rvector dv = X(2) - (m1 * X(0) + m2 * X(1)) / (m1 + m2);
    o = {std::sqrt(dv.x * dv.x + dv.y * dv.y + dv.z * dv.z)};
    return true;
  }
  if (n == "v") {
    double m5 = px.m[4], m6 = px.m[5];
    cvm::rvector v = (m5 * X(4) + m6 * X(5)) / (m5 + m6) - X(3);
    o = {v.x, v.y, v.z};
    return true;
  }
  if (n == "zz") {
    cvm::rvector dv = X(5) - X(0);
    o = {std::sqrt(dv.x * dv.x + dv.y * dv.y + dv.z * dv.z)};
    return true;
  }
  return false;
}

struct Out { std::string rec, log, problem, listp; std::string stale_inactive, stale_active; int steprc[2] = {0, 0}; };

static Out run_seq(Scn const &sc, int start, std::vector<int> const &ops, bool script, std::vector<std::string> const *pre = NULL)
{
  Out o;
  Run r; r.sc = &sc; r.script = script;
  r.px = new_px(sc);
  if (start >= 1 && r.px->config(all_conf(sc)) != 0) { fprintf(stderr, "HARNESS-ERROR: scenario rejected: %s\n", r.px->errtxt.c_str()); _exit(3); }
  if (start == 2) for (long s = 0; s < 3; s++) { place(*r.px, s); if (r.px->step(s) != 0) { fprintf(stderr, "HARNESS-ERROR: step: %s\n", r.px->errtxt.c_str()); _exit(2); } r.next = s + 1; }
  (void) pre;
  for (int op : ops) apply(r, op);
  for (int k = 0; k < 2; k++) {
    place(*r.px, r.next);
    int rc = r.px->step(r.next);
    r.next++;
    o.steprc[k] = rc;
    o.rec += "step rc " + std::to_string(rc) + "\n" + observe(*r.px);
    if (o.listp.empty()) o.listp = list_problem(*r.px);
    if (script && sc.id == "A" && rc == 0) {
      // the value returned by the script is the value of the current coordinates
      for (colvar *cv : *(r.px->colvars->variables())) {
        std::vector<double> want;
        if (!own_value(*r.px, cv->name, want)) continue;
        SR s = cvs(*r.px, W({"cv", "colvar", cv->name, "value"}));
        std::vector<double> got;
        { std::istringstream is(s.out); double d; while (is >> d) got.push_back(d); }
        bool same = s.rc == 0 && got.size() == want.size();
        for (size_t i = 0; same && i < want.size(); i++) if (!close_rel(got[i], want[i], std::max(1.0, std::fabs(want[i])))) same = false;
        if (same) continue;
        bool active = cv->is_enabled(colvardeps::f_cv_active);
        if (!active && cv->name == sc.cvn[0] && r.deact0) continue;  // switched off by the user: a stale value is what was asked for
        std::string d = cv->name + ": script value \"" + s.out + "\" vs current coordinates " + num(want[0]);
        if (!active) { if (o.stale_inactive.empty()) o.stale_inactive = d; }
        else if (o.stale_active.empty()) o.stale_active = d;
      }
    }
  }
  o.log = r.log;
  o.problem = r.problem;
  delete r.px;
  return o;
}

static std::string ops_json(std::vector<int> const &ops)
{
  std::string s = "[";
  for (size_t i = 0; i < ops.size(); i++) s += std::string(i ? "," : "") + "\"" + KN[ops[i]] + "\"";
  return s + "]";
}

static std::string ops_sig(std::vector<int> const &ops)
{
  // the operations that matter for a signature: the last one
  static const char *SN[NOPS] = {"step", "config-bias", "addforce", "addforce", "bias-delete", "bias-delete", "colvar-delete", "colvar-delete", "save-load",
                                 "set-active-0", "set-active-1", "get-active", "update", "reset", "config-all", "cv-delete", "load-file"};
  return ops.empty() ? "none" : SN[ops.back()];
}

static void check_seq(Scn const &sc, int start, std::vector<int> const &ops, Result &r, int part)
{
  static const char *SN[3] = {"empty", "configured", "after-3-steps"};
  Out a = run_seq(sc, start, ops, true);
  Out b = run_seq(sc, start, ops, false);
  r.count("evaluations");
  r.count(part == 3 ? "p3_pairs" : "p4_sequences");
  r.count("transitions", 2 * (ops.size() + 2));
  r.seen("states", a.rec);
  r.seen("nontrivial", "seq:" + sc.id + SN[start] + ops_json(ops));
  std::string det = "{\"part\":" + std::to_string(part) + ",\"scenario\":\"" + sc.id + "\",\"start_state\":\"" + SN[start] + "\",\"operations\":" + ops_json(ops) +
                    ",\"accepted_script_path\":\"" + a.log + "\",\"accepted_direct_path\":\"" + b.log + "\"";
  std::string P = part == 3 ? "C20:path:" : "C20:seq:";
  if (a.log != b.log) {
    size_t i = 0; while (i < a.log.size() && i < b.log.size() && a.log[i] == b.log[i]) i++;
    std::vector<int> upto(ops.begin(), ops.begin() + std::min(ops.size(), i + 1));
    r.violation(P + "accepted-by-one-path-rejected-by-the-other:" + ops_sig(upto), det + "}");
  } else if (a.rec != b.rec) {
    r.violation(P + "script-path-differs-from-direct-path:after:" + ops_sig(ops), det + ",\"first_difference\":\"" + jesc(first_diff(a.rec, b.rec)) + "\"}");
  }
  if (!a.problem.empty()) r.violation(P + a.problem.substr(0, a.problem.find(':')), det + ",\"problem\":\"" + jesc(a.problem) + "\"}");
  if (!a.listp.empty()) r.violation(P + "list-disagrees-with-internal-lists", det + ",\"problem\":\"" + jesc(a.listp) + "\"}");
  if (!a.stale_inactive.empty()) {
    // two different histories lead here: plain deletion of the biases of a variable, or a script that switched off a variable
    // which a bias still uses ("set active 0" is accepted with one reference left) and later deleted a bias
    bool toggled = false;
    for (int op : ops) if (op == ACT_OFF) toggled = true;
    r.violation(toggled ? "C20:variable-left-inactive:after-the-script-switched-off-a-variable-in-use" : "C20:variable-left-inactive-after-its-biases-were-deleted",
                det + ",\"problem\":\"" + jesc(a.stale_inactive) + "\"}");
  }
  if (!a.stale_active.empty()) r.violation(P + "script-value-is-not-the-value-of-the-current-coordinates", det + ",\"problem\":\"" + jesc(a.stale_active) + "\"}");
  if (a.steprc[0] || a.steprc[1]) r.count("sequences_whose_final_steps_report_an_error");
  if ((fnv(ops_json(ops)) % 997) == 5) r.sample(det + "}", 3);
}

// ------------------------------------------------------------------ part 3 extras
// (a) configuration text through `cv config` vs read_config_string, whole / piecewise / erroneous, before and after steps
static void p3_config(Scn const &sc, Result &r)
{
  std::vector<std::pair<std::string, std::vector<std::string>>> menus;
  menus.push_back({"whole", {all_conf(sc)}});
  std::vector<std::string> pieces;
  for (auto &c : sc.cvc) pieces.push_back(c);
  for (auto &c : sc.bc) pieces.push_back(c);
  menus.push_back({"piecewise", pieces});
  std::vector<std::string> p2 = pieces; p2.push_back(sc.zc); p2.push_back(sc.xc);
  menus.push_back({"piecewise-plus-extras", p2});
  menus.push_back({"bias-before-its-variable", {sc.bc[0], all_conf(sc)}});
  menus.push_back({"bias-on-unknown-variable", {all_conf(sc), "harmonic {\n name bad\n colvars nosuch\n centers 0.0\n forceConstant 1.0\n}\n"}});
  menus.push_back({"variable-missing-a-group", {all_conf(sc), "colvar {\n name e\n distance {\n group1 { atomNumbers 1 }\n }\n}\n"}});
  menus.push_back({"unbalanced-brace", {all_conf(sc), "colvar {\n name e\n"}});
  menus.push_back({"duplicate-name", {all_conf(sc), sc.cvc[0]}});
  menus.push_back({"global-keywords", {"colvarsTrajFrequency 0\ncolvarsRestartFrequency 0\n", all_conf(sc)}});
  menus.push_back({"empty-text", {all_conf(sc), ""}});
  for (auto &m : menus) for (int steps_between = 0; steps_between < 2; steps_between++) {
    std::string rec[2], log[2];
    for (int path = 0; path < 2; path++) {
      vproxy *px = new_px(sc);
      long next = 0;
      for (size_t i = 0; i < m.second.size(); i++) {
        bool ok = path == 0 ? cvs(*px, W({"cv", "config", m.second[i]})).rc == 0 : px->config(m.second[i]) == 0;
        log[path] += ok ? "+" : "-";
        if (steps_between && i + 1 < m.second.size()) { place(*px, next); px->step(next); next++; rec[path] += observe(*px, false); }
      }
      for (int k = 0; k < 2; k++) { place(*px, next); int rc = px->step(next); next++; rec[path] += "step rc " + std::to_string(rc) + "\n" + observe(*px); }
      std::string lp = list_problem(*px);
      if (!lp.empty()) rec[path] += "LISTPROBLEM " + lp;
      delete px;
    }
    r.count("evaluations"); r.count("p3_pairs"); r.count("transitions", 2 * (m.second.size() + 2));
    r.seen("nontrivial", "p3cfg:" + sc.id + m.first + std::to_string(steps_between));
    r.seen("states", rec[0]);
    std::string det = "{\"part\":3,\"scenario\":\"" + sc.id + "\",\"configuration_menu\":\"" + m.first + "\",\"steps_between_pieces\":" + std::to_string(steps_between) +
                      ",\"accepted_script_path\":\"" + log[0] + "\",\"accepted_direct_path\":\"" + log[1] + "\"";
    if (log[0] != log[1]) r.violation("C20:path:config:accepted-by-one-path-rejected-by-the-other:" + m.first, det + "}");
    else if (rec[0] != rec[1]) r.violation("C20:path:config:script-path-differs-from-direct-path:" + m.first, det + ",\"first_difference\":\"" + jesc(first_diff(rec[0], rec[1])) + "\"}");
    if (rec[0].find("LISTPROBLEM") != std::string::npos) r.violation("C20:path:config:list-disagrees-with-internal-lists:" + m.first, det + ",\"problem\":\"" + jesc(rec[0].substr(rec[0].find("LISTPROBLEM"))) + "\"}");
  }
}

// (b) force added from the engine's force callback: through the script (what an engine script does) vs add_bias_force
static void p3_callback(Scn const &sc, Result &r)
{
  static const double FM[4] = {0.25, -1.5, 1000.0, 0.0};
  for (int after = 0; after < 2; after++) for (int with_biases = 0; with_biases < 2; with_biases++) for (int vi = 0; vi < 2; vi++) for (int fi = 0; fi < 4; fi++) {
    std::string rec[3];
    std::string problem;
    for (int path = 0; path < 3; path++) {  // 0 script inside the callback, 1 add_bias_force inside the callback, 2 script BEFORE the step (documented: no effect)
      vproxy *px = new_px(sc);
      std::string conf = "scriptedColvarForces on\n" + std::string(after ? "scriptingAfterBiases on\n" : "scriptingAfterBiases off\n");
      for (auto &c : sc.cvc) conf += c;
      if (with_biases) for (auto &c : sc.bc) conf += c;
      if (px->config(conf) != 0) { fprintf(stderr, "HARNESS-ERROR: callback configuration rejected: %s\n", px->errtxt.c_str()); _exit(3); }
      std::string n = sc.cvn[vi];
      // force text: the menu value in every component
      colvar *cv0 = px->cv(n);
      size_t dim = cv0->value().size();
      std::string ft;
      for (size_t i = 0; i < dim; i++) { char b[40]; snprintf(b, 40, "%s%.17g", i ? " " : "", FM[fi] * (1.0 + 0.5 * i)); ft += b; }
      int calls = 0;
      px->force_callback = [&]() -> int {
        calls++;
        if (path == 0) {
          // as the Tcl wrapper would: the command runs inside calc(); error state must not be wiped here
          std::vector<std::string> w = W({"cv", "colvar", n, "addforce", ft});
          std::vector<unsigned char *> v;
          for (auto &s : w) v.push_back((unsigned char *) s.c_str());
          int rc = run_colvarscript_command((int) v.size(), v.data());
          return rc == 0 ? COLVARS_OK : COLVARS_ERROR;
        } else if (path == 1) {
          colvar *cv = px->cv(n);
          colvarvalue f(cv->value());
          f.is_derivative();
          f.from_simple_string(ft);
          cv->enable(colvardeps::f_cv_apply_force);
          cv->add_bias_force(f);
        }
        return COLVARS_OK;
      };
      for (long s = 0; s < 3; s++) {
        place(*px, s);
        if (path == 2) cvs(*px, W({"cv", "colvar", n, "addforce", ft}));
        int rc = px->step(s);
        rec[path] += "step rc " + std::to_string(rc) + "\n" + observe(*px);
        if (path == 0 && sc.id == "A" && !with_biases && rc == 0) {
          // own arithmetic: the engine receives f x gradient
          double f = FM[fi];
          auto X = [&](int a) { return px->x[a]; };
          std::vector<cvm::rvector> want(6, cvm::rvector(0, 0, 0));
          if (vi == 0) {
            double m1 = px->m[0], m2 = px->m[1];
            cvm::rvector dv = X(2) - (m1 * X(0) + m2 * X(1)) / (m1 + m2);
            cvm::rvector u = dv / std::sqrt(dv.x * dv.x + dv.y * dv.y + dv.z * dv.z);
            want[0] = (-f * m1 / (m1 + m2)) * u; want[1] = (-f * m2 / (m1 + m2)) * u; want[2] = f * u;
          } else {
            double m5 = px->m[4], m6 = px->m[5];
            cvm::rvector F(f, 1.5 * f, 2.0 * f);
            want[3] = -1.0 * F; want[4] = (m5 / (m5 + m6)) * F; want[5] = (m6 / (m5 + m6)) * F;
          }
          for (int a = 0; a < 6; a++) {
            double sc_ = std::max(1.0, std::fabs(f) * 2);
            if ((!close_rel(px->fapp[a].x, want[a].x, sc_) || !close_rel(px->fapp[a].y, want[a].y, sc_) || !close_rel(px->fapp[a].z, want[a].z, sc_)) && problem.empty())
              problem = "atom " + std::to_string(a + 1) + " received (" + num(px->fapp[a].x) + "," + num(px->fapp[a].y) + "," + num(px->fapp[a].z) + "), force x gradient is (" + num(want[a].x) + "," + num(want[a].y) + "," + num(want[a].z) + ")";
          }
          SR q = cvs(*px, W({"cv", "colvar", n, "getappliedforce"}));
          std::vector<double> g; { std::istringstream is(q.out); double d; while (is >> d) g.push_back(d); }
          if ((g.empty() || !close_rel(g[0], f, std::max(1.0, std::fabs(f)))) && problem.empty()) problem = "getappliedforce returned \"" + q.out + "\" after addforce " + ft;
        }
      }
      if (path < 2 && calls != 3) { fprintf(stderr, "HARNESS-ERROR: force callback ran %d times in 3 steps\n", calls); _exit(2); }
      px->force_callback = nullptr;
      delete px;
    }
    r.count("evaluations"); r.count("p3_pairs"); r.count("transitions", 9);
    std::string key = sc.id + ":" + std::to_string(after) + std::to_string(with_biases) + std::to_string(vi) + std::to_string(fi);
    r.seen("nontrivial", "p3cb:" + key);
    r.seen("states", rec[0]);
    std::string det = "{\"part\":3,\"scenario\":\"" + sc.id + "\",\"scriptingAfterBiases\":" + std::to_string(after) + ",\"with_biases\":" + std::to_string(with_biases) +
                      ",\"variable\":\"" + sc.cvn[vi] + "\",\"force\":" + num(FM[fi]);
    if (rec[0] != rec[1]) r.violation("C20:path:addforce-in-callback:script-differs-from-add_bias_force", det + ",\"first_difference\":\"" + jesc(first_diff(rec[0], rec[1])) + "\"}");
    if (!problem.empty()) r.violation("C20:path:addforce-in-callback:engine-forces-differ-from-force-times-gradient", det + ",\"problem\":\"" + jesc(problem) + "\"}");
    if (FM[fi] == 0.0 && rec[0] != rec[2]) r.violation("C20:path:addforce-zero-in-callback-differs-from-addforce-before-step", det + ",\"first_difference\":\"" + jesc(first_diff(rec[0], rec[2])) + "\"}");
  }
}

// (c) state loaded into a fresh module: `cv loadfromstring` vs the engine's input state (queue + first step)
static void p3_load(Scn const &sc, Result &r)
{
  for (int when = 0; when < 2; when++) {  // 0: before the first step of a fresh module; 1: after two steps of another trajectory
    std::string rec[2];
    bool okk[2] = {true, true};
    for (int path = 0; path < 2; path++) {
      vproxy *px = new_px(sc);
      if (px->config(all_conf(sc)) != 0) _exit(2);
      long e = 2;  // the donor state was saved at step 2: a resumed run repeats that step
      if (when == 1) { for (long s = 10; s < 12; s++) { place(*px, s); px->step(s); } e = 12; }
      if (path == 0) okk[0] = cvs(*px, W({"cv", "loadfromstring", sc.state3})).rc == 0;
      else if (when == 0) px->queue_state_text(sc.state3);
      else { cvm::clear_error(); px->input_stream_from_string("input state string", sc.state3); okk[1] = px->colvars->setup_input() == 0 && cvm::get_error() == 0; cvm::clear_error(); }
      for (int k = 0; k < 2; k++) { place(*px, e + k); int rc = px->step(e + k); rec[path] += "step rc " + std::to_string(rc) + "\n" + observe(*px); }
      delete px;
    }
    r.count("evaluations"); r.count("p3_pairs"); r.count("transitions", 6);
    r.seen("nontrivial", "p3load:" + sc.id + std::to_string(when));
    std::string det = "{\"part\":3,\"scenario\":\"" + sc.id + "\",\"loaded\":\"" + (when ? "after two steps" : "into a fresh module") + "\"";
    if (!okk[0] || !okk[1]) r.violation("C20:path:loadfromstring:valid-state-rejected", det + "}");
    else if (rec[0] != rec[1]) r.violation("C20:path:loadfromstring:differs-from-engine-input-state", det + ",\"first_difference\":\"" + jesc(first_diff(rec[0], rec[1])) + "\"}");
  }
}

void part34(std::vector<Scn> const &scs, Args const &args, Result &total)
{
  bool thorough = args.thorough();
  std::string scratch = args.kv.count("scratch") ? args.kv.at("scratch") : ".";
  // work items: (scenario, start state, sequence) for part 4 + part 3 singles
  struct Item { int si, start, part; std::vector<int> ops; };
  std::vector<Item> items;
  std::vector<int> use = {0, 1, 2};
  for (int si : use) {
    int depth = thorough ? (si == 0 ? 4 : 3) : (si == 0 ? 3 : 2);
    // part 3: every single action from the configured and the after-3-steps state, and from the empty module
    for (int st = 0; st < 3; st++) for (int op = 0; op < NOPS; op++) items.push_back({si, st, 3, {op}});
    // part 4: all sequences of length 2..depth from the configured state, 2..depth-1 from the after-3-steps state
    for (int st = 1; st < 3; st++) {
      int dmax = st == 1 ? depth : depth - 1;
      std::vector<std::vector<int>> frontier = {{}};
      for (int d = 1; d <= dmax; d++) {
        std::vector<std::vector<int>> nextf;
        for (auto &f : frontier) for (int op = 0; op < NOPS; op++) { auto g = f; g.push_back(op); nextf.push_back(g); }
        if (d >= 2) for (auto &g : nextf) items.push_back({si, st, 4, g});
        frontier.swap(nextf);
      }
    }
  }
  size_t nseq = items.size();
  // part 3 extras as pseudo items
  for (int si = 0; si < (int) scs.size(); si++) for (int kind = 0; kind < 3; kind++) items.push_back({si, -1 - kind, 3, {}});
  bool ok = run_sharded(args.jobs, [&](int shard, int nsh, Result &r) {
    g_wdir = scratch + "/p4w" + std::to_string(shard) + "x";
    mkdir(g_wdir.c_str(), 0755);
    if (chdir(g_wdir.c_str()) != 0) herr("chdir");
    size_t const BATCH = 60;
    for (size_t b0 = shard * BATCH; b0 < items.size(); b0 += nsh * BATCH) {
      size_t b1 = std::min(items.size(), b0 + BATCH);
      run_cases_forked(b0, b1, [&](size_t i, Result &rr) {
        Item const &it = items[i];
        if (it.start >= 0) check_seq(scs[it.si], it.start, it.ops, rr, it.part);
        else if (it.start == -1) p3_config(scs[it.si], rr);
        else if (it.start == -2) p3_callback(scs[it.si], rr);
        else p3_load(scs[it.si], rr);
      }, [&](size_t i, std::string const &kind, std::string const &tail) {
        Item const &it = items[i];
        static const char *SN[3] = {"empty", "configured", "after-3-steps"};
        if (it.start >= 0)
          r.violation("C20:crash:sequence:last-op-" + ops_sig(it.ops) + ":" + kind,
                      "{\"part\":" + std::to_string(it.part) + ",\"scenario\":\"" + scs[it.si].id + "\",\"start_state\":\"" + SN[it.start] + "\",\"operations\":" + ops_json(it.ops) +
                      ",\"death\":\"" + jesc(kind) + "\",\"report\":\"" + jesc(tail) + "\"}");
        else
          r.violation(std::string("C20:crash:path-pair:") + (it.start == -1 ? "config" : (it.start == -2 ? "addforce-callback" : "loadfromstring")) + ":" + kind,
                      "{\"part\":3,\"scenario\":\"" + scs[it.si].id + "\",\"death\":\"" + jesc(kind) + "\",\"report\":\"" + jesc(tail) + "\"}");
      }, r);
    }
  }, total, 3600);
  if (!ok) exit(2);
  total.notes.push_back("parts 3-4: " + std::to_string(nseq) + " operation sequences (alphabet of " + std::to_string((int) NOPS) + " script operations), each run through the script and through the direct path");
}
