// C13 — defining then deleting objects is the identity; the dependency graph stays consistent.
// Explorer A (asan build): breadth-first over ALL operation sequences up to a depth bound over
// {define variable a/b/c, define bias h/w/hi/f/m, delete bias x, delete variable x, reset, step}.
// Oracles in every state: dependency invariant on every object, atoms in use == atoms of live objects,
// no error raised by a legal operation; differential: the surviving objects behave over the next two steps
// exactly as in the same history with the deleted objects' operations filtered out.
#include "vproxy.h"
#include "common.h"
#include "colvarcomp.h"

using namespace vc;

enum OpKind { ADD_V, ADD_B, DEL_B, DEL_V, RESET, STEP };
struct Op { OpKind k; int obj; const char *name; };

static const char *VNAME[3] = {"a", "b", "c"};
static const int NBIAS = 6;
static const char *BNAME[NBIAS] = {"h", "w", "hi", "f", "m", "g"};
// variables each bias needs
static const std::vector<int> BNEED[NBIAS] = {{0}, {1}, {0, 2}, {0}, {2}, {0, 2}};

static std::string vconf(int v)
{
  switch (v) {
  case 0: return "colvar {\n name a\n width 0.5\n lowerBoundary 0.0\n upperBoundary 6.0\n distance {\n group1 { atomNumbers 1 2 }\n group2 { atomNumbers 3 }\n }\n}\n";
  case 1: return "colvar {\n name b\n width 0.5\n lowerBoundary 0.0\n upperBoundary 6.0\n extendedLagrangian on\n extendedFluctuation 0.3\n extendedTimeConstant 20.0\n distance {\n group1 { atomNumbers 3 }\n group2 { atomNumbers 4 }\n }\n}\n";
  // (a distance, so that its Jacobian force is not zero: a second ABF with hideJacobian uses it together with a)
  default: return "colvar {\n name c\n width 0.5\n lowerBoundary 0.0\n upperBoundary 6.0\n outputTotalForce on\n distance {\n group1 { atomNumbers 5 6 }\n group2 { atomNumbers 1 }\n }\n}\n";
  }
}
static std::string bconf(int b)
{
  switch (b) {
  case 0: return "harmonic {\n name h\n colvars a\n centers 1.0\n forceConstant 2.0\n timeStepFactor 2\n}\n";
  case 1: return "harmonicWalls {\n name w\n colvars b\n lowerWalls 1.0\n upperWalls 1.5\n forceConstant 3.0\n}\n";
  case 2: return "histogram {\n name hi\n colvars a c\n}\n";
  case 3: return "abf {\n name f\n colvars a\n fullSamples 1\n hideJacobian on\n}\n";  // (hideJacobian changes how the variable reports and receives forces while the bias exists)
  case 5: return "abf {\n name g\n colvars a c\n fullSamples 1\n hideJacobian on\n}\n";  // shares a with f; c is listed after the shared variable
  default: return "metadynamics {\n name m\n colvars c\n hillWeight 0.4\n hillWidth 2.0\n newHillFrequency 1\n}\n";
  }
}

static std::vector<Op> alphabet()
{
  std::vector<Op> a;
  for (int v = 0; v < 3; v++) a.push_back({ADD_V, v, VNAME[v]});
  for (int b = 0; b < NBIAS; b++) a.push_back({ADD_B, b, BNAME[b]});
  a.push_back({STEP, 0, "step"});
  for (int b = 0; b < NBIAS; b++) a.push_back({DEL_B, b, BNAME[b]});
  for (int v = 0; v < 3; v++) a.push_back({DEL_V, v, VNAME[v]});
  a.push_back({RESET, 0, "reset"});
  return a;
}

// abstract state: which objects exist (to decide which ops are enabled, and to build filtered histories)
struct Abs { bool v[3] = {false, false, false}; bool b[NBIAS] = {false, false, false, false, false, false}; };

static bool enabled(Abs const &s, Op const &o)
{
  switch (o.k) {
  case ADD_V: return !s.v[o.obj];
  case ADD_B: { if (s.b[o.obj]) return false; for (int v : BNEED[o.obj]) if (!s.v[v]) return false; return true; }
  case DEL_B: return s.b[o.obj];
  case DEL_V: return s.v[o.obj];
  default: return true;
  }
}
static void apply_abs(Abs &s, Op const &o)
{
  switch (o.k) {
  case ADD_V: s.v[o.obj] = true; break;
  case ADD_B: s.b[o.obj] = true; break;
  case DEL_B: s.b[o.obj] = false; break;
  case DEL_V:
    s.v[o.obj] = false;
    for (int b = 0; b < NBIAS; b++) for (int v : BNEED[b]) if (v == o.obj) s.b[b] = false;
    break;
  case RESET: s = Abs(); break;
  default: break;
  }
}

static void place(vproxy &px, long s)
{
  static const double P[6][3] = {{0, 0, 0}, {1.5, 0, 0}, {0.2, 1.4, 0.3}, {-0.4, 0.6, 1.6}, {1.1, -0.8, 0.9}, {0.3, 0.9, -1.2}};
  for (int a = 0; a < 6; a++) {
    px.x[a] = cvm::rvector(P[a][0] + 0.11 * s * (a + 1), P[a][1] - 0.06 * s * a, P[a][2] + 0.04 * s * ((a * 7) % 3 - 1));
    px.fsys[a] = cvm::rvector(0.2 * (a - 2), 0.1 * s, -0.05 * a);
  }
}

// ---- invariants ----
static void check_deps(colvardeps *o, std::string &bad)
{
  if (!bad.empty()) return;
  for (size_t f = 0; f < o->feature_states.size() && f < o->features().size(); f++) {
    if (!o->feature_states[f].enabled) continue;
    colvardeps::feature *ft = o->features()[f];
    for (int g : ft->requires_self)
      if (!o->feature_states[g].enabled) { bad = o->description + ": \"" + ft->description + "\" enabled without its prerequisite \"" + o->features()[g]->description + "\""; return; }
    for (auto &alt : ft->requires_alt) {
      bool any = false;
      for (int g : alt) if (o->feature_states[g].enabled) any = true;
      if (!any && !alt.empty()) { bad = o->description + ": \"" + ft->description + "\" enabled with none of its alternative prerequisites"; return; }
    }
    for (int g : ft->requires_exclude)
      if (o->feature_states[g].enabled) { bad = o->description + ": mutually exclusive \"" + ft->description + "\" and \"" + o->features()[g]->description + "\" both enabled"; return; }
    if (o->is_enabled()) {
      for (int g : ft->requires_children)
        for (colvardeps *ch : o->children)
          if (!ch->feature_states[g].enabled) { bad = o->description + ": \"" + ft->description + "\" needs \"" + ch->features()[g]->description + "\" in child " + ch->description + ", which is off"; return; }
    }
    if (o->feature_states[f].ref_count < 0) { bad = o->description + ": negative reference count of \"" + ft->description + "\""; return; }
  }
}

static std::string check_state(vproxy &px)
{
  std::string bad;
  std::set<int> used;
  for (colvar *cv : *(px.colvars->variables())) {
    check_deps(cv, bad);
    for (auto &c : cv->cvcs) {
      check_deps(c.get(), bad);
      for (cvm::atom_group *g : c->atom_groups) {
        check_deps(g, bad);
        for (auto &at : *g) used.insert(at.id);
        if (g->fitting_group) for (auto &at : *(g->fitting_group)) used.insert(at.id);
      }
    }
  }
  for (colvarbias *b : px.colvars->biases) check_deps(b, bad);
  if (!bad.empty()) return "dependency: " + bad;
  std::set<int> held;
  for (size_t i = 0; i < px.atoms_ids.size(); i++) if (px.atoms_refcount[i] > 0) held.insert(px.atoms_ids[i]);
  if (held != used) {
    std::string s = "atoms held by the engine interface {";
    for (int a : held) s += std::to_string(a + 1) + " ";
    s += "} differ from the atoms of live objects {";
    for (int a : used) s += std::to_string(a + 1) + " ";
    return "atoms: " + s + "}";
  }
  return "";
}

struct Trace { std::vector<double> nums; std::string problem; std::string errors; int at = -1; std::vector<int> active; bool ever_inactive = false; };

// run a history (list of op indices), then two more steps; record per-object observations of the final two steps
static Trace run_history(std::vector<Op> const &alpha, std::vector<int> const &hist, bool check_invariants)
{
  Trace t;
  // same-step force convention: the measured total force then contains no Colvars force, so that a deleted bias
  // leaves no physical trace in what the surviving objects measure afterwards
  vproxy *px = new vproxy(6, true);
  px->set_target_temperature(300.0);
  place(*px, 0);
  // scripted forces are in use throughout: a constant force is added to variable a from the engine's force callback
  // whenever a exists (it must keep arriving at the atoms when the biases that used a are gone)
  px->force_callback = [px]() {
    colvar *cv = px->cv("a");
    if (cv && cv->is_enabled(colvardeps::f_cv_active)) cv->add_bias_force(colvarvalue(0.35));
    return COLVARS_OK;
  };
  if (px->config("scriptedColvarForces on\n") != 0) { fprintf(stderr, "HARNESS-ERROR: scriptedColvarForces rejected: %s\n", px->errtxt.c_str()); exit(3); }
  long step = 0;
  bool stepped = false;
  auto do_step = [&]() {
    place(*px, step);
    int rc = px->step(step);
    step++;
    stepped = true;
    return rc;
  };
  for (size_t i = 0; i < hist.size(); i++) {
    Op const &o = alpha[hist[i]];
    int rc = 0;
    size_t e0 = px->errtxt.size();
    switch (o.k) {
    case ADD_V: rc = px->config(vconf(o.obj)); break;
    case ADD_B: rc = px->config(bconf(o.obj)); break;
    case DEL_B: { colvarbias *b = px->bias(o.name); cvm::clear_error(); delete b; rc = cvm::get_error(); cvm::clear_error(); break; }
    case DEL_V: { colvar *v = px->cv(o.name); cvm::clear_error(); delete v; rc = cvm::get_error(); cvm::clear_error(); break; }
    case RESET: cvm::clear_error(); px->colvars->reset(); rc = cvm::get_error(); cvm::clear_error(); break;
    case STEP: rc = do_step(); break;
    }
    if ((rc != 0 || px->errtxt.size() > e0) && t.problem.empty()) {
      t.problem = std::string("error raised by a legal operation (") + (o.k == STEP ? "step" : (o.k == RESET ? "reset" : (o.k <= ADD_B ? "define " : "delete "))) +
                  (o.k == STEP || o.k == RESET ? "" : o.name) + "): " + px->errtxt.substr(e0, 200);
      t.at = i;
    }
    if (check_invariants && t.problem.empty()) {
      std::string p = check_state(*px);
      if (!p.empty()) { t.problem = p; t.at = i; }
    }
    for (colvar *cv : *(px->colvars->variables())) if (!cv->is_enabled(colvardeps::f_cv_active)) t.ever_inactive = true;
  }
  // two more steps: observations of whatever survives
  for (int k = 0; k < 2; k++) {
    size_t e0 = px->errtxt.size();
    int rc = do_step();
    if ((rc != 0 || px->errtxt.size() > e0) && t.problem.empty()) { t.problem = "error raised by a step after the history: " + px->errtxt.substr(e0, 200); t.at = hist.size(); }
    for (int v = 0; v < 3; v++) {
      colvar *cv = px->cv(VNAME[v]);
      if (k == 0) t.active.push_back(cv ? (cv->is_enabled(colvardeps::f_cv_active) ? 1 : 0) : -1);
      t.nums.push_back(cv ? cv->value().real_value : -999.0);
      t.nums.push_back(cv ? cv->applied_force().real_value : -999.0);
    }
    for (int b = 0; b < NBIAS; b++) { colvarbias *bb = px->bias(BNAME[b]); t.nums.push_back(bb ? bb->get_energy() : -999.0); }
    t.nums.push_back(px->energy);
    for (int a = 0; a < 6; a++) { t.nums.push_back(px->fapp[a].x); t.nums.push_back(px->fapp[a].y); t.nums.push_back(px->fapp[a].z); }
    if (check_invariants && t.problem.empty()) {
      std::string p = check_state(*px);
      if (!p.empty()) { t.problem = p; t.at = hist.size() + k; }
    }
  }
  size_t e0 = px->errtxt.size();
  delete px;  // errors raised while destroying the module are captured by ~vproxy into errtxt... (object is gone: use cvm state)
  (void) e0;
  return t;
}

// filtered history: drop the define-operations of objects that are later deleted (with everything done to them),
// keeping steps and everything else; objects deleted by a variable deletion or a reset are handled the same way
static std::vector<int> filter_history(std::vector<Op> const &alpha, std::vector<int> const &hist)
{
  // life-time analysis: for each ADD at position i, find whether the object is deleted later
  std::vector<bool> drop(hist.size(), false);
  for (size_t i = 0; i < hist.size(); i++) {
    Op const &o = alpha[hist[i]];
    if (o.k != ADD_V && o.k != ADD_B) continue;
    for (size_t j = i + 1; j < hist.size(); j++) {
      Op const &d = alpha[hist[j]];
      bool kills = false;
      if (d.k == RESET) kills = true;
      else if (o.k == ADD_V && d.k == DEL_V && d.obj == o.obj) kills = true;
      else if (o.k == ADD_B && d.k == DEL_B && d.obj == o.obj) kills = true;
      else if (o.k == ADD_B && d.k == DEL_V) { for (int v : BNEED[o.obj]) if (v == d.obj) kills = true; }
      if (kills) { drop[i] = true; break; }
    }
  }
  std::vector<int> out;
  for (size_t i = 0; i < hist.size(); i++) {
    Op const &o = alpha[hist[i]];
    if (o.k == DEL_B || o.k == DEL_V || o.k == RESET) continue;
    if ((o.k == ADD_V || o.k == ADD_B) && drop[i]) continue;
    out.push_back(hist[i]);
  }
  return out;
}

static std::string hist_str(std::vector<Op> const &alpha, std::vector<int> const &h)
{
  std::string s = "[";
  for (size_t i = 0; i < h.size(); i++) {
    Op const &o = alpha[h[i]];
    std::string n = o.k == STEP ? "step" : (o.k == RESET ? "reset" : std::string(o.k == ADD_V ? "define variable " : (o.k == ADD_B ? "define bias " : (o.k == DEL_B ? "delete bias " : "delete variable "))) + o.name);
    s += std::string(i ? "," : "") + "\"" + n + "\"";
  }
  return s + "]";
}

int main(int argc, char **argv)
{
  Args args(argc, argv);
  bool thorough = args.thorough();
  int depth = thorough ? 7 : 6;
  std::vector<Op> alpha = alphabet();

  // enumerate all enabled sequences up to `depth` (abstract state decides enabledness); sequences must contain a deletion
  // or reset to be interesting for the differential oracle, but invariants are checked on all
  std::vector<std::vector<int>> all;
  {
    struct Node { std::vector<int> h; Abs s; };
    std::vector<Node> frontier = {Node{{}, Abs()}};
    for (int d = 0; d < depth; d++) {
      std::vector<Node> next;
      for (auto &n : frontier)
        for (size_t oi = 0; oi < alpha.size(); oi++) {
          if (!enabled(n.s, alpha[oi])) continue;
          // prune: reset on an empty module, and two consecutive resets
          if (alpha[oi].k == RESET && n.h.empty()) continue;
          // lengths 6 and 7 (thorough): only sequences whose last operation is a deletion/reset are RUN (every prefix of
          // length <= 5 was run); the frontier of length 6 is kept complete so that length 7 covers every prefix
          bool ends_in_del = (alpha[oi].k == DEL_B || alpha[oi].k == DEL_V || alpha[oi].k == RESET);
          if (d >= 6 && !ends_in_del) continue;
          Node m = n;
          m.h.push_back((int) oi);
          apply_abs(m.s, alpha[oi]);
          if (d < 5 || ends_in_del) all.push_back(m.h);
          next.push_back(m);
        }
      frontier.swap(next);
    }
  }

  Result total;
  // ---- default names: every prefix of {define an unnamed variable, delete the variable at position p} of length <= 4.  After
  // any such history defining one more unnamed variable must succeed, as it would had the deleted ones never existed. ----
  {
    std::string uconf = "colvar {\n distance {\n group1 { atomNumbers 1 }\n group2 { atomNumbers 2 }\n }\n}\n";
    // letters: 0 = define unnamed; 1..3 = delete the variable currently at position letter-1 (if there is one)
    for (int len = 1; len <= 4; len++) {
      long nw = 1; for (int i = 0; i < len; i++) nw *= 4;
      for (long w = 0; w < nw; w++) {
        vproxy *px = new vproxy(6, true);
        place(*px, 0);
        std::string hist = "[";
        bool applicable = true, refused = false;
        long q = w;
        for (int i = 0; i < len && applicable && !refused; i++) {
          int l = (int) (q % 4); q /= 4;
          if (l == 0) { hist += "\"define an unnamed variable\","; if (px->config(uconf) != 0) refused = true; }
          else {
            if ((size_t) l > px->colvars->variables()->size()) { applicable = false; break; }
            hist += "\"delete the variable at position " + std::to_string(l) + "\",";
            delete (*(px->colvars->variables()))[l - 1];
            cvm::clear_error();
          }
        }
        if (applicable) {
          total.count("evaluations");
          size_t n0 = px->colvars->variables()->size();
          int rc = refused ? 1 : px->config(uconf);
          total.seen("nontrivial", fnv("unnamed" + hist));
          if (rc != 0 || px->colvars->variables()->size() != n0 + 1)
            total.violation("C13:defining-an-unnamed-variable-fails-after-earlier-deletions",
                            "{\"history\":" + hist + "\"define an unnamed variable\"],\"error\":\"" + jesc(px->errtxt.substr(0, 200)) + "\"}");
        }
        delete px;
      }
    }
  }
  bool ok = run_sharded(args.jobs, [&](int shard, int nsh, Result &r) {
    size_t const BATCH = 100;
    for (size_t b0 = shard * BATCH; b0 < all.size(); b0 += nsh * BATCH) {
      size_t b1 = std::min(all.size(), b0 + BATCH);
      auto run_range = [&](size_t lo, size_t hi, Result &rr) {
        for (size_t i = lo; i < hi; i++) {
          std::vector<int> const &h = all[i];
          rr.count("evaluations");
          rr.count("transitions", h.size() + 2);
          Trace t = run_history(alpha, h, true);
          std::string det = "{\"operations\":" + hist_str(alpha, h);
          if (!t.problem.empty()) {
            std::string kind = t.problem.substr(0, t.problem.find(':'));
            std::string lastop = t.at >= 0 && t.at < (int) h.size() ? std::string(alpha[h[t.at]].k == DEL_B ? "delete-bias" : (alpha[h[t.at]].k == DEL_V ? "delete-variable" : (alpha[h[t.at]].k == RESET ? "reset" : (alpha[h[t.at]].k == STEP ? "step" : "define")))) : "final-steps";
            bool asleep = t.problem.find("cannot decrease reference count") != std::string::npos;
            rr.violation("C13:" + std::string(kind.find("error") == 0 ? "error-from-legal-operation" : (kind == "dependency" ? "dependency-invariant" : "atoms-not-released-or-missing")) +
                             ":" + lastop + (asleep ? ":reference-count-underflow" : ""),
                         det + ",\"after_operation\":" + std::to_string(t.at) + ",\"problem\":\"" + jesc(t.problem.substr(0, 400)) + "\"}");
            continue;
          }
          bool has_del = false;
          for (int oi : h) if (alpha[oi].k == DEL_B || alpha[oi].k == DEL_V || alpha[oi].k == RESET) has_del = true;
          if (has_del) {
            std::vector<int> fh = filter_history(alpha, h);
            Trace f = run_history(alpha, fh, false);
            rr.count("differential_runs");
            bool same = f.nums.size() == t.nums.size();
            for (size_t k = 0; same && k < t.nums.size(); k++)
              if (!close_rel(t.nums[k], f.nums[k], std::max(1.0, std::fabs(f.nums[k])), 1e-12, 1e-13)) same = false;
            std::string inactive;
            for (size_t v = 0; v < t.active.size() && v < f.active.size(); v++)
              if (t.active[v] == 0 && f.active[v] == 1) inactive += std::string(inactive.size() ? "," : "") + VNAME[v];
            if (inactive.empty() && !same && t.ever_inactive && !f.ever_inactive) inactive = "(during the history)";
            if (!inactive.empty()) {
              rr.violation("C13:variable-left-inactive-after-the-biases-using-it-were-deleted",
                           det + ",\"filtered\":" + hist_str(alpha, fh) + ",\"inactive_variables\":\"" + inactive + "\"}");
            } else if (!same) {
              std::string diffs;
              for (size_t k = 0; k < t.nums.size() && k < f.nums.size(); k++)
                if (!close_rel(t.nums[k], f.nums[k], std::max(1.0, std::fabs(f.nums[k])), 1e-12, 1e-13))
                  diffs += "[" + std::to_string(k) + "," + num(t.nums[k]) + "," + num(f.nums[k]) + "]";
              rr.violation("C13:survivors-differ-from-history-without-the-deleted-objects",
                           det + ",\"filtered\":" + hist_str(alpha, fh) + ",\"index_observed_expected\":\"" + diffs.substr(0, 300) + "\"}");
            }
            rr.seen("nontrivial", fnv(hist_str(alpha, h)));
          }
          std::string hs;
          for (double d : t.nums) hs += num(d) + ",";
          rr.seen("states", fnv(hs));
          if (i % 5003 == 7) rr.sample(det + "}");
        }
      };
      // a batch runs in a child: a crash or sanitizer abort inside the library must not take the worker down
      std::string out;
      int rc = run_isolated([&]() {
        Result rr;
        run_range(b0, b1, rr);
        std::string s = rr.ser();
        size_t off = 0;
        while (off < s.size()) { ssize_t n = write(3, s.data() + off, s.size() - off); if (n <= 0) break; off += n; }
        return 0;
      }, 600, &out);
      if (rc == 0) { r.deser(out); continue; }
      // locate the offending histories one by one
      for (size_t i = b0; i < b1; i++) {
        std::string o2;
        int rc2 = run_isolated([&]() {
          Result rr;
          run_range(i, i + 1, rr);
          std::string s = rr.ser();
          size_t off = 0;
          while (off < s.size()) { ssize_t n = write(3, s.data() + off, s.size() - off); if (n <= 0) break; off += n; }
          return 0;
        }, 120, &o2);
        if (rc2 == 0) r.deser(o2);
        else {
          r.count("evaluations");
          Op const &last = alpha[all[i].back()];
          r.violation(std::string("C13:crash-or-memory-error:") + (rc2 == -1000 ? "hang" : (rc2 < 0 ? "signal" + std::to_string(-rc2) : "sanitizer-or-exit" + std::to_string(rc2))) + ":last-op-" +
                          (last.k == DEL_B ? "delete-bias" : (last.k == DEL_V ? "delete-variable" : (last.k == RESET ? "reset" : (last.k == STEP ? "step" : "define")))),
                      "{\"operations\":" + hist_str(alpha, all[i]) + "}");
        }
      }
    }
  }, total, 7200);
  if (!ok) return 2;
  total.notes.push_back("sequences enumerated: " + std::to_string(all.size()) + " (depth <= " + std::to_string(depth) + ")");
  write_result(args.out, "C13", args.tier, total, true);
  return 0;
}
