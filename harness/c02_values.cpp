// C02 — variable values equal their mathematical definition and respect its symmetries.
// Product enumerator (DESIGN 2.3-E): component type/variant x atom-group option x combination x geometry x
// mass/charge table x cell, and for every such base case the complete transformation menu (translations,
// the 24 cube rotations + generic ones, lattice shifts of every whole group, permutations and duplicate listings
// of every group's atom list).  Oracles:
//   (i)   colvar::value() == independent reference (c02_ref.h) on every (transformed) input;
//   (ii)  whenever the REFERENCE is numerically invariant under the transformation, the implementation must be;
//   (iii) every least-squares rotation used (fits, orientation family) is optimal: not worse than the reference
//         optimum nor than 12 perturbations of itself.
#include "vproxy.h"
#include "common.h"
#include "colvarcomp.h"
#include "c02_ref.h"
#include <memory>
#include <set>

using namespace vc;
using namespace c02;

static const int NAT = 12;

// ------------------------------------------------------------------ fixed alphabets
static const double GEO[3][NAT][3] = {
  {{1.028,-2.04,3.373}, {4.38,-3.821,2.397}, {0.742,-0.997,0.39}, {0.796,-3.25,2.019}, {2.686,-4.167,2.335}, {3.328,-2.188,0.587},
   {2.543,-3.59,0.581}, {4.317,-1.446,-0.185}, {2.055,-4.143,-0.446}, {2.22,-2.436,1.42}, {5.525,-1.835,2.124}, {4.414,-2.593,1.931}},
  {{0.073,2.295,-1.427}, {-2.672,1.556,-4.303}, {-4.189,1.991,-2.905}, {-1.47,3.875,-4.117}, {-2.633,0.739,-2.052}, {-3.071,2.86,-5.308},
   {-0.4,0.876,-1.805}, {-1.251,4.328,-1.623}, {-3.252,3.613,-0.99}, {-1.798,3.318,-5.653}, {-4.194,3.714,-3.615}, {0.454,2.411,-2.703}},
  {{-0.42,1.241,7.018}, {-0.772,-0.915,4.167}, {-0.822,3.063,4.033}, {0.126,2.127,2.08}, {2.192,2.778,6.108}, {1.917,-1.16,4.003},
   {-1.19,0.816,3.325}, {0.59,0.689,5.517}, {0.288,-0.454,4.816}, {2.808,3.11,4.168}, {-0.982,1.115,5.664}, {1.213,2.087,7.079}}};
static const double MASS[3][NAT] = {
  {12.011, 1.008, 15.999, 14.007, 32.06, 1.008, 12.011, 15.999, 30.974, 14.007, 12.011, 1.008},
  {1.5, 7.25, 2.0, 19.0, 4.0, 10.81, 6.94, 9.012, 24.305, 26.98, 28.09, 35.45},
  {1, 1, 1, 1, 1, 1, 1, 1, 1, 1, 1, 1}};
static const double CHARGE[3][NAT] = {
  {-0.51, 0.31, 0.42, -0.18, 0.27, -0.66, 0.09, 0.55, -0.30, 0.12, 0.40, -0.25},
  {0.4, -0.9, 0.3, 0.2, -0.35, 0.8, -0.15, 0.6, 0.25, -0.45, 0.1, -0.7},     // atoms 1-4 neutral
  {-0.51, 0.31, 0.42, -0.18, 0.27, -0.66, 0.09, 0.55, -0.30, 0.12, 0.40, -0.25}};
static const double CELLS[2][3] = {{20.0, 22.0, 24.0}, {14.0, 16.0, 15.0}};

static std::vector<V3> tab(std::initializer_list<V3> l, V3 off) { std::vector<V3> r; for (auto v : l) r.push_back(v + off); return r; }
// component-level reference positions / vector / second set of positions (5 atoms)
static std::vector<V3> C5() { return tab({mk(0.3,-1.2,0.8), mk(1.9,0.4,-0.6), mk(-1.1,1.5,0.2), mk(-0.7,-0.9,-1.4), mk(0.9,0.6,1.7)}, mk(1.5,-0.5,2.5)); }
static std::vector<V3> VEC5() { return tab({mk(0.5,-0.2,0.1), mk(-0.3,0.4,0.6), mk(0.2,0.7,-0.5), mk(-0.6,-0.1,0.3), mk(0.4,-0.3,-0.2)}, mk(0,0,0)); }
static std::vector<V3> B5()
{
  std::vector<V3> c = C5(), r;
  M3 R = axis_angle(mk(0.2, -1.0, 0.5), 0.9);
  V3 d[5] = {mk(0.3,0.1,-0.2), mk(-0.2,0.25,0.1), mk(0.1,-0.3,0.2), mk(0.15,0.2,0.3), mk(-0.25,-0.1,-0.15)};
  for (int i = 0; i < 5; i++) r.push_back(mul(R, c[i]) + d[i] + mk(-3.0, 2.0, 0.5));
  return r;
}
// group-level reference positions
static std::vector<V3> GREF(size_t n)
{
  std::vector<V3> g = tab({mk(1.2,0.1,-0.4), mk(-0.5,1.3,0.6), mk(-0.9,-1.0,0.9), mk(0.4,-0.8,-1.5), mk(-0.3,0.7,1.1)}, mk(-2.0,3.0,1.0));
  g.resize(n);
  return g;
}
static std::vector<V3> FREF() { return tab({mk(0.8,-0.6,0.3), mk(-1.0,0.2,0.9), mk(0.1,1.4,-0.7), mk(0.6,-0.4,-1.2)}, mk(4.0,-1.0,-2.0)); }
static std::vector<V3> centred(std::vector<V3> v) { V3 c = mean(v); for (auto &p : v) p = p - c; return v; }

// ------------------------------------------------------------------ configuration writer
static std::string f17(double v) { char b[40]; snprintf(b, 40, "%.17g", v); return b; }
static std::string v3s(V3 v) { return "(" + f17(v.x) + ", " + f17(v.y) + ", " + f17(v.z) + ")"; }
static std::string v3list(std::vector<V3> const &l) { std::string s; for (auto &v : l) s += " " + v3s(v); return s; }
static std::string ilist(std::vector<int> const &l) { std::string s; for (int a : l) s += " " + std::to_string(a); return s; }

static std::string group_conf(GroupSpec const &g, std::string const &ind)
{
  std::string s = ind + g.key + " {\n";
  if (g.dummy) s += ind + "  dummyAtom " + v3s(g.dummy_pos) + "\n";
  else {
    s += ind + "  atomNumbers" + ilist(g.atoms) + "\n";
    if (g.extra.size()) {
      if (g.extra_style == 2) for (int a : g.extra) s += ind + "  atomNumbersRange " + std::to_string(a) + "-" + std::to_string(a) + "\n";
      else s += ind + "  atomNumbers" + ilist(g.extra) + "\n";
    }
  }
  if (g.has_fit && g.raw_fit.size()) s += ind + "  " + g.raw_fit + "\n";
  else if (g.has_fit) {
    if (g.center_origin) s += ind + "  centerToOrigin on\n";
    else if (g.center) s += ind + "  centerToReference on\n";
    if (g.rotate) s += ind + "  rotateToReference on\n";
    if (g.refpos.size()) s += ind + "  refPositions" + v3list(g.refpos) + "\n";
    if (g.fit_atoms.size()) s += ind + "  fittingGroup {\n" + ind + "    atomNumbers" + ilist(g.fit_atoms) + "\n" +
                                (g.fit_extra.size() ? ind + "    atomNumbers" + ilist(g.fit_extra) + "\n" : std::string()) + ind + "  }\n";
  }
  return s + ind + "}\n";
}

static std::string comp_conf(CompSpec const &c)
{
  std::string s = "  " + c.type + " {\n";
  if (c.coeff != 1.0) s += "    componentCoeff " + f17(c.coeff) + "\n";
  if (c.cexp != 1) s += "    componentExp " + std::to_string(c.cexp) + "\n";
  if (c.no_pbc) s += "    forceNoPBC yes\n";
  if (c.period != 0) s += "    period " + f17(c.period) + "\n";
  if (c.wrap_center != 0) s += "    wrapAround " + f17(c.wrap_center) + "\n";
  if (c.has_axis) s += "    axis " + v3s(c.axis) + "\n";
  if (c.exponent) s += "    exponent " + std::to_string(c.exponent) + "\n";
  if (c.cutoff != 0) s += "    cutoff " + f17(c.cutoff) + "\n";
  if (c.aniso) s += "    cutoff3 " + v3s(c.cutoff3) + "\n";
  if (c.en) s += "    expNumer " + std::to_string(c.en) + "\n";
  if (c.ed) s += "    expDenom " + std::to_string(c.ed) + "\n";
  if (c.g2center >= 0) s += std::string("    group2CenterOnly ") + (c.g2center ? "on" : "off") + "\n";
  if (c.tolerance > 0) s += "    tolerance " + f17(c.tolerance) + "\n";
  if (c.acceptor) s += "    acceptor " + std::to_string(c.acceptor) + "\n";
  if (c.donor) s += "    donor " + std::to_string(c.donor) + "\n";
  if (c.refpos.size()) s += "    refPositions" + v3list(c.refpos) + "\n";
  if (c.vec.size()) s += "    vector" + v3list(c.vec) + "\n";
  if (c.normalize) s += "    normalizeVector on\n";
  if (c.diffvec) s += "    differenceVector on\n";
  if (c.has_closest) s += "    closestToQuaternion (" + f17(c.closest[0]) + ", " + f17(c.closest[1]) + ", " + f17(c.closest[2]) + ", " + f17(c.closest[3]) + ")\n";
  if (!c.useX) s += "    useX off\n";
  if (!c.useY) s += "    useY off\n";
  if (!c.useZ) s += "    useZ off\n";
  for (auto &p : c.atom_perms) s += "    atomPermutation" + ilist(p) + "\n";
  for (auto &g : c.groups) s += group_conf(g, "    ");
  return s + "  }\n";
}

static std::string make_conf(std::vector<CompSpec> const &comps)
{
  std::string s = "smp off\ncolvar {\n  name c\n";
  for (auto &c : comps) s += comp_conf(c);
  return s + "}\n";
}

// ------------------------------------------------------------------ families of components
struct Family {
  CompSpec c; int dummy_group = -1; bool scalar_comb = false;
};

static GroupSpec grp(std::string key, std::vector<int> atoms) { GroupSpec g; g.key = key; g.atoms = atoms; return g; }

static std::vector<Family> families(bool thorough)
{
  std::vector<Family> F;
  auto add = [&](CompSpec c, int dummy_group, bool comb) { Family f; f.c = c; f.dummy_group = dummy_group; f.scalar_comb = comb; F.push_back(f); };
  std::vector<int> A = {1, 2, 3, 4}, B = {5, 6, 7}, S5 = {1, 2, 3, 4, 5};
  auto base = [&](std::string type, std::string variant) { CompSpec c; c.type = type; c.variant = variant; return c; };
  auto two = [&](std::string type, std::string variant) { CompSpec c = base(type, variant); c.groups = {grp("group1", A), grp("group2", B)}; return c; };
  auto one = [&](std::string type, std::string variant, std::string key = "atoms") { CompSpec c = base(type, variant); c.groups = {grp(key, S5)}; return c; };

  add(two("distance", "default"), 1, true);
  { CompSpec c = two("distance", "forceNoPBC"); c.no_pbc = true; add(c, 1, false); }
  add(two("distanceVec", "default"), 1, false);
  add(two("distanceDir", "default"), 1, false);
  { CompSpec c = base("distanceZ", "axis-default"); c.groups = {grp("main", A), grp("ref", {5, 6})}; add(c, 1, true); }
  { CompSpec c = base("distanceZ", "axis-generic"); c.groups = {grp("main", A), grp("ref", {5, 6})}; c.has_axis = true; c.axis = mk(1.0, 2.0, -1.0); add(c, 1, false); }
  { CompSpec c = base("distanceZ", "ref2"); c.groups = {grp("main", A), grp("ref", {5, 6}), grp("ref2", {7, 8})}; add(c, -1, false); }
  { CompSpec c = base("distanceZ", "period"); c.groups = {grp("main", A), grp("ref", {5, 6})}; c.period = 3.0; c.wrap_center = 0.75; add(c, 1, false); }
  { CompSpec c = base("distanceXY", "axis-generic"); c.groups = {grp("main", A), grp("ref", {5, 6})}; c.has_axis = true; c.axis = mk(-0.5, 1.0, 2.0); add(c, 1, true); }
  { CompSpec c = base("distanceXY", "ref2"); c.groups = {grp("main", A), grp("ref", {5, 6}), grp("ref2", {7, 8})}; add(c, -1, false); }
  add(two("distanceInv", "default"), -1, true);
  if (thorough) { CompSpec c = two("distanceInv", "exponent4"); c.exponent = 4; add(c, -1, false); }
  add(two("distancePairs", "default"), -1, false);
  { CompSpec c = base("angle", "default"); c.groups = {grp("group1", A), grp("group2", {5, 6}), grp("group3", {7, 8})}; add(c, 2, true); }
  { CompSpec c = base("dipoleAngle", "default"); c.groups = {grp("group1", A), grp("group2", {5, 6}), grp("group3", {7, 8})}; add(c, 2, true); }
  { CompSpec c = base("dihedral", "default"); c.groups = {grp("group1", A), grp("group2", {5, 6}), grp("group3", {7}), grp("group4", {8})}; add(c, 3, false); }
  add(one("polarTheta", "default"), -1, true);
  add(one("polarPhi", "default"), -1, false);
  { CompSpec c = two("coordNum", "cutoff3.0"); c.cutoff = 3.0; add(c, 1, true); }
  { CompSpec c = two("coordNum", "default-cutoff"); add(c, 1, false); }
  { CompSpec c = two("coordNum", "cutoff3"); c.aniso = true; c.cutoff3 = mk(2.5, 3.0, 3.5); add(c, 1, false); }
  { CompSpec c = two("coordNum", "group2CenterOnly"); c.cutoff = 3.0; c.g2center = 1; add(c, -1, false); }
  { CompSpec c = two("coordNum", "exp4-8"); c.cutoff = 3.0; c.en = 4; c.ed = 8; add(c, -1, false); }
  if (thorough) { CompSpec c = two("coordNum", "tolerance"); c.cutoff = 3.0; c.tolerance = 0.001; add(c, -1, false); }
  { CompSpec c = one("selfCoordNum", "cutoff3.0", "group1"); c.cutoff = 3.0; add(c, -1, true); }
  { CompSpec c = base("hBond", "default"); c.acceptor = 1; c.donor = 4; add(c, -1, true); }
  { CompSpec c = base("hBond", "custom"); c.acceptor = 6; c.donor = 10; c.cutoff = 2.0; c.en = 4; c.ed = 10; add(c, -1, false); }
  add(one("gyration", "default"), -1, true);
  add(one("inertia", "default"), -1, true);
  add(one("inertiaZ", "axis-default"), -1, false);
  { CompSpec c = one("inertiaZ", "axis-generic"); c.has_axis = true; c.axis = mk(2.0, -1.0, 0.5); add(c, -1, true); }
  add(one("dipoleMagnitude", "default"), -1, true);
  { CompSpec c = one("rmsd", "default"); c.refpos = C5(); add(c, -1, true); }
  { CompSpec c = one("rmsd", "atomPermutation"); c.refpos = C5(); c.atom_perms = {{1, 3, 2, 4, 5}, {4, 2, 3, 1, 5}}; add(c, -1, false); }
  { CompSpec c = one("eigenvector", "default"); c.refpos = C5(); c.vec = VEC5(); add(c, -1, true); }
  { CompSpec c = one("eigenvector", "normalizeVector"); c.refpos = C5(); c.vec = VEC5(); c.normalize = true; add(c, -1, false); }
  { CompSpec c = one("eigenvector", "differenceVector"); c.refpos = C5(); c.vec = B5(); c.diffvec = true; add(c, -1, false); }
  { CompSpec c = one("orientation", "default"); c.refpos = C5(); add(c, -1, false); }
  { CompSpec c = one("orientation", "closestToQuaternion"); c.refpos = C5(); c.has_closest = true; c.closest[0] = 0; c.closest[1] = 0.6; c.closest[2] = 0; c.closest[3] = -0.8; add(c, -1, false); }
  { CompSpec c = one("orientationAngle", "default"); c.refpos = C5(); add(c, -1, true); }
  { CompSpec c = one("orientationProj", "default"); c.refpos = C5(); add(c, -1, true); }
  { CompSpec c = one("tilt", "axis-default"); c.refpos = C5(); add(c, -1, true); }
  { CompSpec c = one("tilt", "axis-generic"); c.refpos = C5(); c.has_axis = true; c.axis = mk(1.0, 1.0, 0.0); add(c, -1, false); }
  { CompSpec c = one("spinAngle", "axis-default"); c.refpos = C5(); add(c, -1, false); }
  { CompSpec c = one("spinAngle", "axis-generic"); c.refpos = C5(); c.has_axis = true; c.axis = mk(-1.0, 0.5, 2.0); add(c, -1, false); }
  { CompSpec c = one("eulerPhi", "default"); c.refpos = C5(); add(c, -1, false); }
  { CompSpec c = one("eulerTheta", "default"); c.refpos = C5(); add(c, -1, false); }
  { CompSpec c = one("eulerPsi", "default"); c.refpos = C5(); add(c, -1, false); }
  add(one("cartesian", "default"), -1, false);
  { CompSpec c = one("cartesian", "useY-off"); c.useY = false; add(c, -1, false); }
  return F;
}

// atom-group options
static const char *OPTS[] = {"plain", "dummy", "center", "center1", "rotate", "center+rotate", "fittingGroup", "centerToOrigin+rotate",
                             "rotateToReference-off-only", "centerToReference-off-only"};
static const int NOPT = 10;

// returns false when the option does not apply to this family
static bool apply_opt(Family const &f, int opt, CompSpec &c)
{
  c = f.c;
  std::string o = OPTS[opt];
  if (o == "plain") return true;
  if (o == "dummy") {
    if (f.dummy_group < 0) return false;
    GroupSpec &g = c.groups[f.dummy_group];
    g.dummy = true; g.atoms.clear(); g.dummy_pos = mk(2.4, -1.1, 0.9);
    return true;
  }
  if (c.groups.empty()) return false;
  GroupSpec &g = c.groups[0];
  size_t n = g.atoms.size();
  bool default_fitted = (c.type == "rmsd" || c.type == "eigenvector");
  if (o == "rotateToReference-off-only" || o == "centerToReference-off-only") {
    // "Advanced usage of the rmsd component", items 1 and 2: only one of the two default fits is switched off
    if (!default_fitted || c.atom_perms.size() || c.diffvec || c.normalize) return false;
    // the documented default of the other keyword stays ("unless otherwise specified, rmsd and eigenvector set this option to on")
    g.has_fit = true; g.refpos = c.refpos;
    if (o == "rotateToReference-off-only") { g.center = true; g.rotate = false; g.raw_fit = "rotateToReference off"; }
    else { g.center = false; g.rotate = true; g.raw_fit = "centerToReference off"; }
    return true;
  }
  g.has_fit = true;
  if (o == "center") { g.center = true; g.refpos = GREF(n); }
  else if (o == "center1") { g.center = true; g.refpos = {mk(-1.5, 2.5, 0.5)}; }
  else if (o == "rotate") { g.rotate = true; g.refpos = centred(GREF(n)); }
  else if (o == "center+rotate") { g.center = g.rotate = true; g.refpos = GREF(n); }
  else if (o == "fittingGroup") { g.center = g.rotate = true; g.fit_atoms = {9, 10, 11, 12}; g.refpos = FREF(); }
  else if (o == "centerToOrigin+rotate") { g.center_origin = true; g.center = true; g.rotate = true; g.refpos = GREF(n); }
  return true;
}

// ------------------------------------------------------------------ a case and its transformations
struct Case {
  std::vector<CompSpec> comps; Sys sys; std::string id; std::string sigbase; std::string optclass;
  bool combined = false;   // also run the combined reorder+duplicate menu on this base case
};

struct Entity { int ci, gi; bool fit; std::string name; };

static std::vector<Entity> entities(std::vector<CompSpec> const &comps)
{
  std::vector<Entity> E;
  for (size_t ci = 0; ci < comps.size(); ci++)
    for (size_t gi = 0; gi < comps[ci].groups.size(); gi++) {
      GroupSpec const &g = comps[ci].groups[gi];
      if (!g.dummy) E.push_back({(int) ci, (int) gi, false, "c" + std::to_string(ci) + "." + g.key});
      if (g.fit_atoms.size()) E.push_back({(int) ci, (int) gi, true, "c" + std::to_string(ci) + "." + g.key + ".fittingGroup"});
    }
  return E;
}

static std::vector<int> &elist(std::vector<CompSpec> &comps, Entity const &e)
{
  GroupSpec &g = comps[e.ci].groups[e.gi];
  return e.fit ? g.fit_atoms : g.atoms;
}

struct Xf {
  std::string name, cls;
  std::function<void(std::vector<CompSpec> &, Sys &)> apply;
  bool positions_only() const { return cls == "translation" || cls == "rotation" || cls == "lattice"; }
};

static std::vector<M3> cube_group()
{
  std::vector<M3> G = {ident()};
  auto rot90 = [](int ax) {
    M3 r;
    for (int i = 0; i < 3; i++) for (int j = 0; j < 3; j++) r.a[i][j] = 0;
    int a = (ax + 1) % 3, b = (ax + 2) % 3;
    r.a[ax][ax] = 1; r.a[b][a] = 1; r.a[a][b] = -1;
    return r;
  };
  std::vector<M3> gens = {rot90(0), rot90(1), rot90(2)};
  for (size_t k = 0; k < G.size(); k++)
    for (auto &g : gens) {
      M3 n = mmul(G[k], g);
      bool found = false;
      for (auto &e : G) {
        bool same = true;
        for (int i = 0; i < 3; i++) for (int j = 0; j < 3; j++) if (e.a[i][j] != n.a[i][j]) same = false;
        if (same) found = true;
      }
      if (!found) G.push_back(n);
    }
  return G;
}

template <class T> static void permute(std::vector<T> &v, std::vector<int> const &p)
{
  std::vector<T> r(v.size());
  for (size_t i = 0; i < v.size(); i++) r[i] = v[p[i]];
  v = r;
}

static bool per_atom_type(std::string const &t)
{
  return t == "rmsd" || t == "eigenvector" || t == "orientation" || t == "orientationAngle" || t == "orientationProj" || t == "tilt" ||
         t == "spinAngle" || t == "eulerPhi" || t == "eulerTheta" || t == "eulerPsi";
}

static bool has_per_atom_data(std::vector<CompSpec> const &comps, Entity const &e)
{
  CompSpec const &c = comps[e.ci];
  GroupSpec const &g = c.groups[e.gi];
  if (e.fit) return g.refpos.size() == g.fit_atoms.size();
  if (g.has_fit && g.fit_atoms.empty() && g.refpos.size() == g.atoms.size() && g.raw_fit.empty()) return true;
  return e.gi == 0 && per_atom_type(c.type);
}

// reorder the atom list of an entity; co: also reorder the per-atom reference data that belongs to it
static void apply_perm(std::vector<CompSpec> &comps, Entity const &ee, std::vector<int> const &p, bool co)
{
  CompSpec &c = comps[ee.ci]; GroupSpec &g = c.groups[ee.gi];
  permute(elist(comps, ee), p);
  if (!co) return;
  if (ee.fit) { if (g.refpos.size() == p.size()) permute(g.refpos, p); return; }
  if (g.has_fit && g.fit_atoms.empty() && g.refpos.size() == p.size()) permute(g.refpos, p);
  if (ee.gi == 0 && per_atom_type(c.type)) {
    if (c.refpos.size() == p.size()) permute(c.refpos, p);
    if (c.vec.size() == p.size()) permute(c.vec, p);
  }
}

static bool is_dup_class(std::string const &cls) { return cls == "duplicate" || cls == "reorder+duplicate"; }

static std::vector<Xf> transformations(Case const &cs, bool thorough)
{
  std::vector<Xf> T;
  // rigid translations of all atoms
  V3 tr[3] = {mk(1.3, -2.1, 0.7), mk(-11.0, 7.5, 19.25), mk(30.0, -40.0, 50.0)};
  for (int i = 0; i < 3; i++) {
    V3 t = tr[i];
    T.push_back({"translate:" + std::to_string(i), "translation", [t](std::vector<CompSpec> &, Sys &s) { for (auto &p : s.x) p = p + t; }});
  }
  // rigid rotations of all atoms about the origin
  static std::vector<M3> cube = cube_group();
  std::vector<std::pair<std::string, M3>> rots;
  for (size_t i = 1; i < cube.size(); i++) if (thorough || i % 4 == 1) rots.push_back({"rotate:cube" + std::to_string(i), cube[i]});
  rots.push_back({"rotate:generic0", axis_angle(mk(1, 2, 3), 0.7)});
  rots.push_back({"rotate:generic1", axis_angle(mk(-2, 1, 0.5), 2.1)});
  rots.push_back({"rotate:generic2", axis_angle(mk(0.3, -0.4, 0.86), 3.0)});
  for (auto &r : rots) {
    M3 R = r.second;
    T.push_back({r.first, "rotation", [R](std::vector<CompSpec> &, Sys &s) { for (auto &p : s.x) p = mul(R, p); }});
  }
  std::vector<Entity> E = entities(cs.comps);
  // lattice shifts of each whole group (cell on)
  if (cs.sys.pbc) {
    std::vector<int> ks = thorough ? std::vector<int>{-2, -1, 1, 2} : std::vector<int>{-1, 1};
    for (size_t ei = 0; ei <= E.size(); ei++) {
      // ei == E.size(): first group together with its fitting group
      std::vector<int> atoms; std::string nm;
      if (ei < E.size()) { std::vector<CompSpec> tmp = cs.comps; atoms = dedupe(elist(tmp, E[ei])); nm = E[ei].name; }
      else {
        if (cs.comps[0].groups.empty() || cs.comps[0].groups[0].fit_atoms.empty()) continue;
        atoms = dedupe(cs.comps[0].groups[0].atoms);
        for (int a : cs.comps[0].groups[0].fit_atoms) atoms.push_back(a);
        atoms = dedupe(atoms); nm = "c0.first+fittingGroup";
      }
      for (int ax = 0; ax < 3; ax++) for (int k : ks) {
        T.push_back({"shift:" + nm + ":" + "xyz"[ax] + (k > 0 ? "+" : "") + std::to_string(k), "lattice",
                     [atoms, ax, k](std::vector<CompSpec> &, Sys &s) {
                       for (int a : atoms) { V3 &p = s.x[a - 1]; double d = k * s.L[ax]; if (ax == 0) p.x += d; else if (ax == 1) p.y += d; else p.z += d; }
                     }});
      }
    }
  }
  // permutations of each group's atom list
  for (auto &e : E) {
    std::vector<CompSpec> tmp = cs.comps;
    int n = (int) elist(tmp, e).size();
    if (n < 2) continue;
    std::vector<std::vector<int>> perms;
    std::vector<int> idp(n);
    for (int i = 0; i < n; i++) idp[i] = i;
    if (thorough && n <= 4) {
      std::vector<int> p = idp;
      while (std::next_permutation(p.begin(), p.end())) perms.push_back(p);
    } else {
      // all transpositions, the reversal and one cyclic shift
      for (int i = 0; i < n; i++) for (int j = i + 1; j < n; j++) { std::vector<int> p = idp; std::swap(p[i], p[j]); perms.push_back(p); }
      std::vector<int> p = idp; std::reverse(p.begin(), p.end());
      if (std::find(perms.begin(), perms.end(), p) == perms.end()) perms.push_back(p);
      p = idp; std::rotate(p.begin(), p.begin() + 1, p.end());
      if (std::find(perms.begin(), perms.end(), p) == perms.end()) perms.push_back(p);
    }
    bool pad = has_per_atom_data(cs.comps, e);
    for (auto &p : perms) for (int co = 0; co < (pad ? 2 : 1); co++) {
      std::string ps; for (int i : p) ps += std::to_string(i);
      Entity ee = e;
      T.push_back({"perm:" + e.name + ":" + ps + (pad ? (co ? ":with-data" : ":list-only") : ""), "reorder",
                   [ee, p, co](std::vector<CompSpec> &comps, Sys &) { apply_perm(comps, ee, p, co != 0); }});
    }
  }
  // duplicate listing of each atom of each group
  for (auto &e : E) {
    std::vector<CompSpec> tmp = cs.comps;
    int n = (int) elist(tmp, e).size();
    for (int k = 0; k < n; k++) {
      std::vector<char> styles = {'A'};
      if (thorough || k == 0) { styles.push_back('B'); if (!e.fit) { styles.push_back('C'); styles.push_back('D'); } }
      for (char st : styles) {
        Entity ee = e;
        T.push_back({std::string("dup:") + e.name + ":" + std::to_string(k) + ":" + st, "duplicate",
                     [ee, k, st](std::vector<CompSpec> &comps, Sys &) {
                       std::vector<int> &l = elist(comps, ee);
                       GroupSpec &g = comps[ee.ci].groups[ee.gi];
                       int a = l[k];
                       if (st == 'A') l.push_back(a);
                       else if (st == 'B') l.insert(l.begin() + k + 1, a);
                       else { g.extra.push_back(a); g.extra_style = (st == 'C') ? 1 : 2; }
                     }});
      }
    }
  }
  // COMBINED: duplicate listing applied to reordered (descending, rotated, two shuffled) atom lists, per-atom reference data
  // co-permuted; every atom at every insertion position (groups <= 4 atoms) or first/middle/last position (larger groups);
  // written with one keyword, or split over two atomNumbers keywords just before the second occurrence.
  if (cs.combined) {
    for (auto &e : E) {
      std::vector<CompSpec> tmp = cs.comps;
      std::vector<int> base_list = elist(tmp, e);
      int n = (int) base_list.size();
      if (n < 2) continue;
      std::vector<int> idp(n);
      for (int i = 0; i < n; i++) idp[i] = i;
      std::vector<std::vector<int>> orders;
      auto add_order = [&](std::vector<int> p) { if (p != idp && std::find(orders.begin(), orders.end(), p) == orders.end()) orders.push_back(p); };
      { std::vector<int> p = idp; std::reverse(p.begin(), p.end()); add_order(p); }
      { std::vector<int> p = idp; std::rotate(p.begin(), p.begin() + 1, p.end()); add_order(p); }
      if (n == 3) { add_order({2, 0, 1}); add_order({1, 0, 2}); }
      if (n == 4) { add_order({2, 0, 3, 1}); add_order({1, 3, 0, 2}); }
      if (n == 5) { add_order({3, 0, 4, 1, 2}); add_order({1, 4, 2, 0, 3}); }
      std::set<std::string> seen_lists;
      for (auto &ord : orders) {
        std::vector<int> lst(n);
        for (int i = 0; i < n; i++) lst[i] = base_list[ord[i]];
        std::vector<int> positions;
        if (n <= 4) for (int q = 0; q <= n; q++) positions.push_back(q);
        else positions = {0, (n + 1) / 2, n};
        for (int k = 0; k < n; k++) for (int pos : positions) for (int style = 0; style < 2; style++) {
          std::vector<int> full = lst;
          full.insert(full.begin() + pos, lst[k]);
          // index of the later occurrence of the duplicated atom
          int second = -1;
          for (int i = (int) full.size() - 1; i >= 0; i--) if (full[i] == lst[k]) { second = i; break; }
          int split = style ? std::max(1, second - 1) : (int) full.size();
          std::string key = ilist(full) + "|" + std::to_string(split);
          if (!seen_lists.insert(key).second) continue;
          std::string os; for (int i : ord) os += std::to_string(i);
          Entity ee = e;
          T.push_back({"permdup:" + e.name + ":order" + os + ":atom" + std::to_string(k) + ":at" + std::to_string(pos) + (style ? ":two-keywords" : ":one-keyword"),
                       "reorder+duplicate",
                       [ee, ord, full, split](std::vector<CompSpec> &comps, Sys &) {
                         apply_perm(comps, ee, ord, true);
                         GroupSpec &g = comps[ee.ci].groups[ee.gi];
                         std::vector<int> first(full.begin(), full.begin() + split), rest(full.begin() + split, full.end());
                         if (ee.fit) { g.fit_atoms = first; g.fit_extra = rest; }
                         else { g.atoms = first; g.extra = rest; g.extra_style = 1; }
                       }});
        }
      }
    }
  }
  return T;
}

// ------------------------------------------------------------------ running the real code
struct Impl {
  int parse_rc = 0, step_rc = 0;
  std::string err, conf;
  std::vector<double> v; int vtype = -1;
  std::vector<std::pair<std::string, Q4>> rots;  // rotation quaternions actually used (by atom-group key / "component")
};

// One Colvars module configured for a case; eval() presents a set of coordinates as the next engine step.
struct Module {
  vproxy *px = NULL; std::string conf, err; int parse_rc = 0; long stepno = 0;
  Module(std::vector<CompSpec> const &comps, Sys const &s)
  {
    conf = make_conf(comps);
    px = new vproxy(NAT, false);
    for (int i = 0; i < NAT; i++) { px->x[i] = cvm::rvector(s.x[i].x, s.x[i].y, s.x[i].z); px->m[i] = s.m[i]; px->q[i] = s.q[i]; }
    px->set_cell(s.pbc, s.L[0], s.L[1], s.L[2]);
    parse_rc = px->config(conf);
    if (!parse_rc && !px->cv("c")) parse_rc = -1;
    err = px->errtxt;
  }
  ~Module() { delete px; }
  Impl eval(Sys const &s)
  {
    Impl r;
    r.conf = conf; r.parse_rc = parse_rc; r.err = err;
    if (parse_rc) return r;
    for (int i = 0; i < NAT; i++) px->x[i] = cvm::rvector(s.x[i].x, s.x[i].y, s.x[i].z);
    r.step_rc = px->step(stepno++);
    r.err = px->errtxt;
    colvar *cv = px->cv("c");
    colvarvalue const &val = cv->value();
    r.vtype = (int) val.type();
    switch (val.type()) {
    case colvarvalue::type_scalar: r.v = {val.real_value}; break;
    case colvarvalue::type_3vector: case colvarvalue::type_unit3vector:
      r.v = {val.rvector_value.x, val.rvector_value.y, val.rvector_value.z}; break;
    case colvarvalue::type_quaternion:
      r.v = {val.quaternion_value.q0, val.quaternion_value.q1, val.quaternion_value.q2, val.quaternion_value.q3}; break;
    case colvarvalue::type_vector:
      for (size_t i = 0; i < val.vector1d_value.size(); i++) r.v.push_back(val.vector1d_value[i]);
      break;
    default: break;
    }
    for (auto &cvc_sp : cv->cvcs) {
      colvar::cvc *cvc = &(*cvc_sp);
      for (auto *ag : cvc->atom_groups)
        if (ag->is_enabled(colvardeps::f_ag_rotate)) {
          Q4 q; q.w = ag->rot.q.q0; q.x = ag->rot.q.q1; q.y = ag->rot.q.q2; q.z = ag->rot.q.q3;
          r.rots.push_back(std::make_pair(ag->key, q));
        }
      if (colvar::orientation *o = dynamic_cast<colvar::orientation *>(cvc)) {
        Q4 q; q.w = o->rot.q.q0; q.x = o->rot.q.q1; q.y = o->rot.q.q2; q.z = o->rot.q.q3;
        r.rots.push_back(std::make_pair(std::string("component"), q));
      }
    }
    return r;
  }
};

// fresh module, one evaluation
static Impl run_impl(std::vector<CompSpec> const &comps, Sys const &s)
{
  Module m(comps, s);
  return m.eval(s);
}

// Duplicate listings are evaluated in a forked child: whether they are accepted, rejected or mishandled is part of
// what is being found out, and a crash must become a verdict for that case instead of taking the worker down.
static std::string ser_impl(Impl const &r)
{
  char b[200];
  std::string t;
  snprintf(b, sizeof(b), "P %d %d %d\n", r.parse_rc, r.step_rc, r.vtype); t += b;
  for (double d : r.v) { snprintf(b, sizeof(b), "V %a\n", d); t += b; }
  for (auto &p : r.rots) { snprintf(b, sizeof(b), "R %s %a %a %a %a\n", p.first.c_str(), p.second.w, p.second.x, p.second.y, p.second.z); t += b; }
  return t + "E\n";
}
static bool deser_impl(std::string const &t, Impl &r)
{
  std::istringstream is(t);
  std::string line; bool end = false;
  while (std::getline(is, line)) {
    if (line == "E") { end = true; break; }
    if (line[0] == 'P') sscanf(line.c_str(), "P %d %d %d", &r.parse_rc, &r.step_rc, &r.vtype);
    else if (line[0] == 'V') r.v.push_back(strtod(line.c_str() + 2, NULL));
    else if (line[0] == 'R') {
      char key[100]; char w[40], x[40], y[40], z[40];
      if (sscanf(line.c_str(), "R %99s %39s %39s %39s %39s", key, w, x, y, z) == 5) {
        Q4 q; q.w = strtod(w, NULL); q.x = strtod(x, NULL); q.y = strtod(y, NULL); q.z = strtod(z, NULL);
        r.rots.push_back(std::make_pair(std::string(key), q));
      }
    }
  }
  return end;
}
// All duplicate-listing transformations of one base case in ONE child; the child streams one record per transformation.
// If the child dies, the transformation after the last complete record is the one that crashed: it is recorded with the
// child's status and the remaining ones are run in a new child.
struct DupOutcome { bool done = false; int status = 0; Impl im; };
static void run_duplicates_isolated(std::vector<std::pair<std::vector<CompSpec>, Sys>> const &inputs, std::vector<DupOutcome> &res)
{
  res.assign(inputs.size(), DupOutcome());
  size_t pos = 0;
  while (pos < inputs.size()) {
    std::string out;
    size_t from = pos;
    int st = run_isolated([&]() {
      signal(SIGSEGV, SIG_DFL); signal(SIGBUS, SIG_DFL); signal(SIGFPE, SIG_DFL); signal(SIGABRT, SIG_DFL);
      for (size_t k = from; k < inputs.size(); k++) {
        Impl c = run_impl(inputs[k].first, inputs[k].second);
        std::string t = ser_impl(c);
        size_t off = 0;
        while (off < t.size()) { ssize_t n = write(3, t.data() + off, t.size() - off); if (n <= 0) return 9; off += n; }
      }
      return 0;
    }, 20.0 + 0.5 * (inputs.size() - from), &out);
    // split the stream into complete records (each ends with the line "E")
    size_t p = 0;
    while (pos < inputs.size()) {
      size_t e = out.find("E\n", p);
      while (e != std::string::npos && e != p && out[e - 1] != '\n') e = out.find("E\n", e + 1);
      if (e == std::string::npos) break;
      Impl im;
      deser_impl(out.substr(p, e + 2 - p), im);
      im.conf = make_conf(inputs[pos].first);
      res[pos].done = true; res[pos].im = im;
      pos++; p = e + 2;
    }
    if (pos < inputs.size() && (st != 0 || pos == from)) {
      res[pos].done = true; res[pos].status = st ? st : 99; res[pos].im.conf = make_conf(inputs[pos].first);
      pos++;
    }
  }
}

// ------------------------------------------------------------------ comparison
static double maxabs(std::vector<double> const &v) { double m = 0; for (double d : v) m = std::max(m, std::fabs(d)); return m; }

// largest component difference, aware of periodicity and of the quaternion sign tie
static double vdiff(Kind k, double period, std::vector<double> const &a, std::vector<double> const &b, bool sign_tie)
{
  if (a.size() != b.size()) return 1e300;
  for (double d : a) if (!std::isfinite(d)) return 1e300;
  for (double d : b) if (!std::isfinite(d)) return 1e300;
  double m = 0, m2 = 0;
  for (size_t i = 0; i < a.size(); i++) {
    double d = a[i] - b[i];
    if (k == K_PERIODIC) d = std::remainder(d, period);
    m = std::max(m, std::fabs(d));
    m2 = std::max(m2, std::fabs(a[i] + b[i]));
  }
  if (k == K_QUAT && sign_tie) m = std::min(m, m2);
  return m;
}

static std::string jvec(std::vector<double> const &v) { std::string s = "["; for (size_t i = 0; i < v.size(); i++) s += (i ? "," : "") + num(v[i]); return s + "]"; }
static std::string jsys(Sys const &s)
{
  std::string o = "\"positions\":[";
  for (size_t i = 0; i < s.x.size(); i++) o += (i ? "," : "") + std::string("[") + num(s.x[i].x) + "," + num(s.x[i].y) + "," + num(s.x[i].z) + "]";
  o += "],\"masses\":" + jvec(s.m) + ",\"charges\":" + jvec(s.q) + ",\"cell\":";
  o += s.pbc ? ("[" + num(s.L[0]) + "," + num(s.L[1]) + "," + num(s.L[2]) + "]") : "null";
  return o;
}

struct Ctx { Result *r; bool verbose = false; };

// what the worker is doing, for the crash handler (a crash of the library is a harness error, but it must be attributable)
static char g_where[600] = "start-up";
static void set_where(std::string const &id, std::string const &t) { snprintf(g_where, sizeof(g_where), "%s / %s", id.c_str(), t.c_str()); }
static void crash_handler(int sig)
{
  char msg[800];
  int n = snprintf(msg, sizeof(msg), "HARNESS-ERROR: the library crashed (signal %d) while evaluating %s\n", sig, g_where);
  if (n > 0) { ssize_t w = write(2, msg, (size_t) n); (void) w; }
  _exit(2);
}

static void harness_error(std::string const &msg)
{
  fprintf(stderr, "HARNESS-ERROR: %s\n", msg.c_str());
  fflush(stderr);
  _exit(2);
}

// oracle (iii): optimality of every rotation used
static void check_fits(Ctx &cx, Case const &cs, std::string const &tname, Val const &ref, Impl const &im, Sys const &sys)
{
  Result &r = *cx.r;
  for (auto &f : ref.fits) {
    Q4 const *qi = NULL;
    for (auto &p : im.rots) if (p.first == f.where) qi = &p.second;
    if (!qi) {
      // the documented definition involves a least-squares rotation here, the implementation performed none
      r.count("rotation_not_performed");
      r.violation(cs.sigbase + ":" + cs.optclass + ":rotation-not-performed",
                  "{\"id\":\"" + jesc(cs.id) + "\",\"transformation\":\"" + jesc(tname) + "\",\"where\":\"" + f.where + "\",\"config\":\"" + jesc(im.conf) + "\"," + jsys(sys) + "}");
      continue;
    }
    r.count("rotation_optimality_checks");
    r.count(qi->w < 0 ? "rotations_raw_q0_negative" : "rotations_raw_q0_nonnegative");
    double N = (double) f.a.size();
    double n2 = qi->w * qi->w + qi->x * qi->x + qi->y * qi->y + qi->z * qi->z;
    M3 Ri = qmat(*qi);
    double di = std::sqrt(sq_dev(Ri, f.a, f.b) / N), dr = std::sqrt(sq_dev(qmat(f.q), f.a, f.b) / N);
    double worst = di, best_pert = 1e300;
    V3 axes[3] = {mk(1, 0, 0), mk(0, 1, 0), mk(0, 0, 1)};
    for (int ax = 0; ax < 3; ax++) for (double ang : {1e-3, -1e-3, 1e-2, -1e-2}) {
      double dp = std::sqrt(sq_dev(mmul(axis_angle(axes[ax], ang), Ri), f.a, f.b) / N);
      best_pert = std::min(best_pert, dp);
    }
    (void) worst;
    bool bad = std::fabs(n2 - 1.0) > 1e-12 || !(di <= dr + 1e-10) || !(di <= best_pert + 1e-12);
    if (cx.verbose) printf("  fit %s: rmsd_impl=%.15g rmsd_ref=%.15g best_perturbed=%.15g |q|^2-1=%.3g gap=%.3g\n", f.where.c_str(), di, dr, best_pert, n2 - 1.0, f.relgap);
    if (bad)
      r.violation(cs.sigbase + ":" + cs.optclass + ":rotation-not-optimal",
                  "{\"id\":\"" + jesc(cs.id) + "\",\"transformation\":\"" + jesc(tname) + "\",\"where\":\"" + f.where + "\",\"rmsd_impl\":" + num(di) +
                    ",\"rmsd_reference_optimum\":" + num(dr) + ",\"rmsd_best_perturbation\":" + num(best_pert) + ",\"q_norm2\":" + num(n2) +
                    ",\"config\":\"" + jesc(im.conf) + "\"," + jsys(sys) + "}");
  }
}

static void run_case(Ctx &cx, Case const &cs, bool thorough, std::string const &only_t = "")
{
  Result &r = *cx.r;
  Val ref0 = ref_colvar(cs.comps, cs.sys);
  if (ref0.undefined.size()) { r.count("skipped_singular_base_cases"); r.notes.push_back("singular base case skipped: " + cs.id + " (" + ref0.undefined + ")"); return; }
  // only one Colvars module may exist in a process at a time: the base module serves the position-level
  // transformations first and is destroyed before configuration-level transformations build their own modules
  set_where(cs.id, "identity");
  std::unique_ptr<Module> base(new Module(cs.comps, cs.sys));
  Impl im0 = base->eval(cs.sys);
  bool fresh_only = false;
  for (auto &c : cs.comps) if (c.tolerance > 0) fresh_only = true;   // pair lists are only rebuilt every pairListFrequency steps
  if (im0.parse_rc || im0.step_rc)
    harness_error("base configuration failed (parse rc " + std::to_string(im0.parse_rc) + ", step rc " + std::to_string(im0.step_rc) + ") for " + cs.id + "\n" + im0.conf + "\n" + im0.err);
  r.count("evaluations");
  r.count("base_cases");
  r.seen("configurations", im0.conf);

  auto compare = [&](std::string const &tname, std::string const &tcls, Val const &ref, Impl const &im, Sys const &sys) {
    double scale = maxabs(ref.v);
    double tol = 1e-10 * scale + 1e-12;
    double d = vdiff(ref.kind, ref.period, im.v, ref.v, ref.sign_tie);
    r.seen("nontrivial", cs.id + "|" + tname);
    { std::string o; for (double x : im.v) { char b[32]; snprintf(b, 32, "%.9g,", x); o += b; } r.seen("outcomes", o); }
    if (ref.sign_tie) r.count("quaternion_sign_ties");
    if (cx.verbose) printf("%s | %s\n  impl=%s\n  ref =%s\n  diff=%.3g tol=%.3g\n", cs.id.c_str(), tname.c_str(), jvec(im.v).c_str(), jvec(ref.v).c_str(), d, tol);
    std::string det = "{\"id\":\"" + jesc(cs.id) + "\",\"transformation\":\"" + jesc(tname) + "\",\"observed\":" + jvec(im.v) + ",\"expected\":" + jvec(ref.v) +
                      ",\"max_abs_diff\":" + num(d) + ",\"tolerance\":" + num(tol) + ",\"config\":\"" + jesc(im.conf) + "\"," + jsys(sys) + "}";
    bool finite = true;
    for (double x : im.v) if (!std::isfinite(x)) finite = false;
    if (im.v.size() != ref.v.size()) r.violation(cs.sigbase + ":" + cs.optclass + ":value-dimension", det);
    else if (!finite) r.violation(cs.sigbase + ":" + cs.optclass + ":value-not-finite", det);
    else if (!(d <= tol)) r.violation(cs.sigbase + ":" + cs.optclass + ":value", det);
    else if (ref.kind != K_VEC && ref.kind != K_QUAT && im.v.size() == 1) {
      double eps = 1e-9 * std::max(1.0, std::fabs(ref.hi - ref.lo) < 1e200 ? std::fabs(ref.hi - ref.lo) : 1.0);
      if (im.v[0] < ref.lo - eps || im.v[0] > ref.hi + eps) r.violation(cs.sigbase + ":" + cs.optclass + ":outside-documented-range", det);
    }
    (void) tcls;
  };

  if (only_t.empty() || only_t == "identity") {
    compare("identity", "identity", ref0, im0, cs.sys);
    check_fits(cx, cs, "identity", ref0, im0, cs.sys);
  }

  if (fresh_only) base.reset();
  std::vector<Xf> T = transformations(cs, thorough);

  // everything that is checked for one transformed input
  auto check_transformed = [&](Xf const &t, Val const &ref, Impl const &im, Sys const &sys) {
    r.count("evaluations");
    r.count("evaluations_" + t.cls);
    compare(t.name, t.cls, ref, im, sys);
    check_fits(cx, cs, t.name, ref, im, sys);
    // oracle (ii): invariance decided on the reference itself
    double scale = std::max(maxabs(ref0.v), maxabs(ref.v));
    double dref = vdiff(ref0.kind, ref0.period, ref.v, ref0.v, ref0.sign_tie || ref.sign_tie);
    if (dref <= 1e-11 * scale + 1e-13) {
      r.count("invariance_checks");
      r.count("invariance_checks_" + t.cls);
      double dim = vdiff(ref0.kind, ref0.period, im.v, im0.v, ref0.sign_tie || ref.sign_tie);
      double tol = 1e-10 * scale + 1e-12;
      if (cx.verbose) printf("  reference invariant (dref=%.3g); impl change=%.3g tol=%.3g\n", dref, dim, tol);
      if (!(dim <= tol))
        r.violation(cs.sigbase + ":" + cs.optclass + ":not-invariant",
                    "{\"id\":\"" + jesc(cs.id) + "\",\"transformation\":\"" + jesc(t.name) + "\",\"class\":\"" + t.cls + "\",\"observed_base\":" + jvec(im0.v) + ",\"observed_transformed\":" +
                      jvec(im.v) + ",\"reference_base\":" + jvec(ref0.v) + ",\"reference_transformed\":" + jvec(ref.v) + ",\"change\":" + num(dim) +
                      ",\"tolerance\":" + num(tol) + ",\"config\":\"" + jesc(im.conf) + "\"," + jsys(sys) + "}");
    } else if (dref < 1e-7 * scale) {
      r.count("invariance_undecided_near_invariant");
    } else {
      r.count("reference_not_invariant");
      r.count("reference_not_invariant_" + t.cls);
    }
  };
  auto selected = [&](Xf const &t) { return only_t.empty() || t.name == only_t; };

  // pass A: position-level transformations on the base module
  if (base) {
    for (auto &t : T) {
      if (!t.positions_only() || !selected(t)) continue;
      std::vector<CompSpec> comps = cs.comps; Sys sys = cs.sys;
      t.apply(comps, sys);
      Val ref = ref_colvar(comps, sys);
      if (ref.undefined.size()) { r.count("skipped_singular_transformed"); continue; }
      set_where(cs.id, t.name);
      Impl im = base->eval(sys);
      if (im.step_rc) harness_error("calc failed for " + cs.id + " / " + t.name + "\n" + im.conf + "\n" + im.err);
      check_transformed(t, ref, im, sys);
    }
    // the reused module, given the base coordinates again, must report the bit-identical base value (no hidden history)
    if (only_t.empty()) {
      Impl again = base->eval(cs.sys);
      r.count("history_independence_checks");
      if (again.v.size() != im0.v.size() || memcmp(again.v.data(), im0.v.data(), im0.v.size() * sizeof(double)) != 0)
        r.violation(cs.sigbase + ":" + cs.optclass + ":value-depends-on-earlier-steps",
                    "{\"id\":\"" + jesc(cs.id) + "\",\"first\":" + jvec(im0.v) + ",\"after_other_coordinates\":" + jvec(again.v) + ",\"config\":\"" + jesc(im0.conf) + "\"," + jsys(cs.sys) + "}");
    }
    base.reset();
  }

  // pass B: duplicate listings, all in one forked child
  {
    std::vector<std::pair<std::vector<CompSpec>, Sys>> inputs;
    std::vector<size_t> which;
    std::vector<Val> refs;
    for (size_t ti = 0; ti < T.size(); ti++) {
      if (!is_dup_class(T[ti].cls) || !selected(T[ti])) continue;
      std::vector<CompSpec> comps = cs.comps; Sys sys = cs.sys;
      T[ti].apply(comps, sys);
      Val ref = ref_colvar(comps, sys);
      if (ref.undefined.size()) { r.count("skipped_singular_transformed"); continue; }
      inputs.push_back(std::make_pair(comps, sys)); which.push_back(ti); refs.push_back(ref);
    }
    std::vector<DupOutcome> res;
    set_where(cs.id, "duplicate listings (forked child)");
    if (inputs.size()) run_duplicates_isolated(inputs, res);
    for (size_t k = 0; k < inputs.size(); k++) {
      Xf const &t = T[which[k]];
      if (res[k].status != 0) {
        r.count("evaluations");
        r.count("duplicate_listing_crashed");
        r.violation(cs.sigbase + ":" + cs.optclass + ":crash-on-duplicate-listing",
                    "{\"id\":\"" + jesc(cs.id) + "\",\"transformation\":\"" + jesc(t.name) + "\",\"child_status\":" + std::to_string(res[k].status) +
                      ",\"config\":\"" + jesc(res[k].im.conf) + "\"," + jsys(inputs[k].second) + "}");
        continue;
      }
      if (res[k].im.parse_rc) { r.count("duplicate_listing_rejected"); continue; }
      if (res[k].im.step_rc) harness_error("calc failed for " + cs.id + " / " + t.name + "\n" + res[k].im.conf);
      check_transformed(t, refs[k], res[k].im, inputs[k].second);
    }
  }

  // pass C: the remaining transformations, each on a fresh module
  for (auto &t : T) {
    if (is_dup_class(t.cls) || (t.positions_only() && !fresh_only) || !selected(t)) continue;
    std::vector<CompSpec> comps = cs.comps; Sys sys = cs.sys;
    t.apply(comps, sys);
    Val ref = ref_colvar(comps, sys);
    if (ref.undefined.size()) { r.count("skipped_singular_transformed"); continue; }
    set_where(cs.id, t.name);
    Impl im = run_impl(comps, sys);
    if (im.parse_rc) harness_error("transformed configuration failed to parse for " + cs.id + " / " + t.name + "\n" + im.conf + "\n" + im.err);
    if (im.step_rc) harness_error("calc failed for " + cs.id + " / " + t.name + "\n" + im.conf + "\n" + im.err);
    check_transformed(t, ref, im, sys);
  }
}

// ------------------------------------------------------------------ enumeration of base cases
static Sys make_sys(int geo, int tabi, int cell)
{
  Sys s;
  for (int i = 0; i < NAT; i++) { s.x.push_back(mk(GEO[geo][i][0], GEO[geo][i][1], GEO[geo][i][2])); s.m.push_back(MASS[tabi][i]); s.q.push_back(CHARGE[tabi][i]); }
  if (cell > 0) { s.pbc = true; for (int k = 0; k < 3; k++) s.L[k] = CELLS[cell - 1][k]; }
  return s;
}

static std::vector<Case> enumerate(bool thorough)
{
  std::vector<Case> out;
  std::vector<Family> F = families(thorough);
  std::vector<std::pair<int, int>> gt;
  if (thorough) { for (int g = 0; g < 3; g++) for (int t = 0; t < 2; t++) gt.push_back({g, t}); gt.push_back({0, 2}); }
  else gt = {{0, 0}, {1, 1}};
  std::vector<int> cells = thorough ? std::vector<int>{0, 1, 2} : std::vector<int>{0, 1};
  const char *combs[] = {"single", "coeff-2.5", "exp2", "exp3", "sum2"};
  for (auto &f : F)
    for (int opt = 0; opt < NOPT; opt++) {
      if (!thorough && std::string(OPTS[opt]) == "center1") continue;
      CompSpec c;
      if (!apply_opt(f, opt, c)) continue;
      for (int comb = 0; comb < 5; comb++) {
        if (comb > 0 && (!f.scalar_comb || opt != 0)) continue;
        std::vector<CompSpec> comps = {c};
        if (comb == 1) comps[0].coeff = -2.5;
        if (comb == 2) comps[0].cexp = 2;
        if (comb == 3) { comps[0].cexp = 3; comps[0].coeff = 0.5; }
        if (comb == 4) {
          CompSpec d; d.type = "distance"; d.variant = "second"; d.coeff = 0.5;
          d.groups = {grp("group1", {9, 10}), grp("group2", {11, 12})};
          comps.push_back(d);
        }
        for (auto &g : gt) for (int cell : cells) {
          Case cs;
          cs.comps = comps;
          cs.sys = make_sys(g.first, g.second, cell);
          cs.id = c.type + "/" + c.variant + "|opt=" + OPTS[opt] + "|comb=" + combs[comb] + "|geo=" + std::to_string(g.first) + "|tab=" +
                  std::to_string(g.second) + "|cell=" + std::to_string(cell);
          cs.sigbase = "C02:" + c.type;   // variant, combination, geometry and transformation are in the detail record
          std::string o = OPTS[opt];
          cs.optclass = (o == "plain" || o == "dummy") ? o : (o.find("-off-only") != std::string::npos ? o : "userfit");
          // the combined reorder+duplicate menu concerns the atom list only: one (thorough: three) geometry/table, no cell
          cs.combined = (cell == 0) && (comb == 0) && (thorough ? ((g.first == 0 && g.second == 0) || (g.first == 1 && g.second == 1) || (g.first == 2 && g.second == 0))
                                                 : (g.first == 0 && g.second == 0));
          out.push_back(cs);
        }
      }
    }
  return out;
}

// ------------------------------------------------------------------ self-tests of the reference (oracle validation)
static void self_test()
{
  // known rotation recovered by best_rotation, and optimal under perturbation
  std::vector<V3> a = C5(), b;
  V3 ca = mean(a);
  for (auto &p : a) p = p - ca;
  M3 Rt = axis_angle(mk(1, 2, 3), 40.0 * PI_ / 180.0);
  for (auto &p : a) b.push_back(mul(Rt, p));
  double gap;
  Q4 q = best_rotation(a, b, &gap);
  M3 R = qmat(q);
  for (int i = 0; i < 3; i++) for (int j = 0; j < 3; j++)
    if (std::fabs(R.a[i][j] - Rt.a[i][j]) > 1e-12) harness_error("reference best_rotation self-test failed (known rotation not recovered)");
  if (std::fabs(2 * std::acos(std::fabs(q.w)) * DEG - 40.0) > 1e-9) harness_error("reference quaternion angle self-test failed");
  // noisy target: the reference optimum must beat a dense set of perturbations
  for (size_t i = 0; i < b.size(); i++) b[i] = b[i] + mk(0.1 * std::sin(1.0 + i), 0.1 * std::cos(2.0 * i), 0.07 * std::sin(3.0 * i + 0.5));
  q = best_rotation(a, b, &gap);
  double d0 = sq_dev(qmat(q), a, b);
  for (int k = 0; k < 200; k++) {
    V3 ax = mk(std::sin(1.0 + k), std::cos(0.7 * k), std::sin(0.3 * k + 2.0));
    double ang = 1e-4 * (1 + k % 7) * ((k % 2) ? 1 : -1) * (k % 5 == 0 ? 100 : 1);
    if (sq_dev(mmul(axis_angle(ax, ang), qmat(q)), a, b) < d0 - 1e-13) harness_error("reference best_rotation is not optimal under perturbation");
  }
  // dihedral sign convention (IUPAC): (1,0,0),(0,0,0),(0,0,1),(0,1,1) -> +90
  {
    CompSpec c; c.type = "dihedral"; c.groups = {grp("group1", {1}), grp("group2", {2}), grp("group3", {3}), grp("group4", {4})};
    Sys s; s.x = {mk(1, 0, 0), mk(0, 0, 0), mk(0, 0, 1), mk(0, 1, 1)}; s.m = {1, 1, 1, 1}; s.q = {0, 0, 0, 0};
    Val v = ref_component(c, s);
    if (std::fabs(v.v[0] - 90.0) > 1e-12) harness_error("reference dihedral sign self-test failed");
  }
  if (cube_group().size() != 24) harness_error("cube rotation group closure did not give 24 elements");
}

int main(int argc, char **argv)
{
  Args args(argc, argv);
  bool thorough = args.thorough();
  signal(SIGSEGV, crash_handler); signal(SIGBUS, crash_handler); signal(SIGFPE, crash_handler); signal(SIGABRT, crash_handler);
  self_test();
  std::vector<Case> cases = enumerate(thorough);

  if (args.replay.size()) {
    // replay of a single recorded case: find "id" and "transformation" in the replay file
    FILE *f = fopen(args.replay.c_str(), "r");
    if (!f && args.replay[0] != '/') f = fopen((args.kv["verif"] + "/" + args.replay).c_str(), "r");   // the driver runs us in a scratch cwd
    if (!f) harness_error("cannot open replay file " + args.replay);
    std::string txt; char buf[4096]; size_t n;
    while ((n = fread(buf, 1, sizeof(buf), f)) > 0) txt.append(buf, n);
    fclose(f);
    auto field = [&](std::string const &k) {
      size_t p = txt.find("\"" + k + "\": \"");
      size_t off = k.size() + 5;
      if (p == std::string::npos) { p = txt.find("\"" + k + "\":\""); off = k.size() + 4; }
      if (p == std::string::npos) return std::string();
      size_t e = txt.find("\"", p + off);
      return txt.substr(p + off, e - p - off);
    };
    std::string id = field("id"), tn = field("transformation");
    Result total;
    Ctx cx{&total, true};
    bool found = false;
    for (auto &full : {enumerate(false), enumerate(true)}) {
      for (auto &cs : full) if (cs.id == id && !found) { found = true; run_case(cx, cs, true, tn.size() ? tn : "identity"); if (tn.size() && tn != "identity") run_case(cx, cs, true, "identity"); }
    }
    if (!found) harness_error("replay case id not found: " + id);
    for (auto &v : total.violations) printf("REPLAY-VIOLATION %s\n", v.sig.c_str());
    write_result(args.out, "C02", args.tier, total, true);
    return 0;
  }

  Result total;
  bool ok = run_sharded(args.jobs, [&](int shard, int nshards, Result &r) {
    Ctx cx{&r, false};
    int first = -1, last = -1;
    // heavy base cases (those that also run the combined menu) are dealt round-robin first, then the others
    std::vector<size_t> order;
    for (size_t i = 0; i < cases.size(); i++) if (cases[i].combined) order.push_back(i);
    for (size_t i = 0; i < cases.size(); i++) if (!cases[i].combined) order.push_back(i);
    for (size_t j = shard; j < order.size(); j += nshards) {
      size_t i = order[j];
      if (first < 0) first = (int) i;
      last = (int) i;
      run_case(cx, cases[i], thorough);
    }
    // determinism: first and last execution of the shard replayed; observations must be bit-identical
    for (int i : {first, last}) {
      if (i < 0) continue;
      Impl a = run_impl(cases[i].comps, cases[i].sys), b = run_impl(cases[i].comps, cases[i].sys);
      if (a.v.size() != b.v.size() || memcmp(a.v.data(), b.v.data(), a.v.size() * sizeof(double)) != 0)
        harness_error("non-deterministic observation for " + cases[i].id);
      r.count("determinism_replays");
    }
  }, total, 3000);
  if (!ok) return 2;

  // a few written-out cases
  for (size_t i : {size_t(0), cases.size() / 3, 2 * cases.size() / 3, cases.size() - 1}) {
    Val v = ref_colvar(cases[i].comps, cases[i].sys);
    total.sample("{\"id\":\"" + jesc(cases[i].id) + "\",\"config\":\"" + jesc(make_conf(cases[i].comps)) + "\",\"reference_value\":" + jvec(v.v) +
                 ",\"transformations\":" + std::to_string(transformations(cases[i], thorough).size()) + "}");
  }
  total.notes.push_back("base cases enumerated: " + std::to_string(cases.size()) + "; every base case runs its complete transformation menu");
  total.notes.push_back("duplicate listing: Colvars documents 'atoms included by multiple keywords are only counted once'; rejected listings are counted, not reported");
  long neg = total.counters["rotations_raw_q0_negative"], pos = total.counters["rotations_raw_q0_nonnegative"];
  total.notes.push_back("sign ambiguity coverage: raw eigenvector returned with q0<0 in " + std::to_string(neg) + " and q0>=0 in " + std::to_string(pos) + " rotations");
  if (neg == 0 || pos == 0) harness_error("vacuous sign-ambiguity coverage: the raw quaternion never showed both signs");
  if (total.counters["invariance_checks"] == 0 || total.counters["rotation_optimality_checks"] == 0) harness_error("vacuous run: no invariance or optimality checks");
  printf("C02 %s: base=%ld evaluations=%ld invariance_checks=%ld not_invariant_ref=%ld undecided=%ld skipped(base/transformed)=%ld/%ld dup_rejected=%ld fits=%ld viol_sigs=%zu\n",
         args.tier.c_str(), total.counters["base_cases"], total.counters["evaluations"], total.counters["invariance_checks"],
         total.counters["reference_not_invariant"], total.counters["invariance_undecided_near_invariant"],
         total.counters["skipped_singular_base_cases"], total.counters["skipped_singular_transformed"],
         total.counters["duplicate_listing_rejected"], total.counters["rotation_optimality_checks"], total.viol_count.size());
  for (auto &kv : total.viol_count) printf("  VIOL %s x%ld\n", kv.first.c_str(), kv.second);
  write_result(args.out, "C02", args.tier, total, true);
  return 0;
}
