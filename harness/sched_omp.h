// Harness-side API of the OpenMP stand-in (sched_omp.cpp)
#ifndef SCHED_OMP_H
#define SCHED_OMP_H
enum { VSCHED_SERIAL = 0, VSCHED_CONTROLLED = 1, VSCHED_FREE = 2 };
struct VschedPoint { int n_enabled; int chosen; bool running_enabled; };
extern "C" {
void vsched_configure(int mode, int nthreads, const int *prefix, int nprefix);
int vsched_npoints();
VschedPoint vsched_get_point(int i);
long vsched_regions();
void vsched_point();   // extra choice point (work-item boundaries)
}
#endif
