// C11 (part a) — whenever Colvars replaces a state file, a crash at any instant leaves at least one complete,
// loadable state (the new file or its '.old' backup) from the moment the first state was completed.
// Explorer C: the file operations of a run with periodic state writes are RECORDED by interposing the libc calls the
// I/O path really makes (fopen/fopen64, write, writev, fclose, rename, remove/unlink); then EVERY prefix of the
// operation log, and for every write EVERY byte prefix, is materialised in a fresh directory (process death keeps
// completed writes) and both candidates are loaded in a fresh module.  Second level: restart from the survivor and
// crash again during the next write.
#include "vproxy.h"
#include "common.h"
#include <dlfcn.h>
#include <sys/uio.h>
#include <sys/stat.h>
#include <fstream>

using namespace vc;

// ----------------------------------------------------------------------------------------------------
// recording interposers
// ----------------------------------------------------------------------------------------------------
struct Ev { int op; std::string a, b; bool completes = false; };  // op: 0 open(trunc) a; 1 write a data=b; 2 close a; 3 rename a->b; 4 remove a
static std::vector<Ev> g_log;
static bool g_rec = false;
static std::map<int, std::string> g_fd;  // fd -> path (only files opened for writing while recording)

static bool tracked_path(const char *p) { return p && strstr(p, "cc_") != NULL; }
// which state file is under test: the module's ("cc_out.colvars.state") or the one a single bias saves on request
// ("cv bias m save <prefix>" -> colvarbias::write_state_prefix(), "cc_bias.colvars.state")
static bool g_bias_mode = false;
static std::string state_name() { return g_bias_mode ? "cc_bias.colvars.state" : "cc_out.colvars.state"; }

extern "C" {
typedef FILE *(*fopen_t)(const char *, const char *);
FILE *fopen64(const char *path, const char *mode)
{
  static fopen_t real = (fopen_t) dlsym(RTLD_NEXT, "fopen64");
  FILE *f = real(path, mode);
  if (g_rec && f && tracked_path(path) && strchr(mode, 'w')) { g_fd[fileno(f)] = path; g_log.push_back({0, path, ""}); }
  return f;
}
FILE *fopen(const char *path, const char *mode)
{
  static fopen_t real = (fopen_t) dlsym(RTLD_NEXT, "fopen");
  FILE *f = real(path, mode);
  if (g_rec && f && tracked_path(path) && strchr(mode, 'w')) { g_fd[fileno(f)] = path; g_log.push_back({0, path, ""}); }
  return f;
}
ssize_t write(int fd, const void *buf, size_t n)
{
  typedef ssize_t (*fn_t)(int, const void *, size_t);
  static fn_t real = (fn_t) dlsym(RTLD_NEXT, "write");
  ssize_t r = real(fd, buf, n);
  if (g_rec && r > 0) { auto it = g_fd.find(fd); if (it != g_fd.end()) g_log.push_back({1, it->second, std::string((const char *) buf, r)}); }
  return r;
}
ssize_t writev(int fd, const struct iovec *iov, int cnt)
{
  typedef ssize_t (*fn_t)(int, const struct iovec *, int);
  static fn_t real = (fn_t) dlsym(RTLD_NEXT, "writev");
  ssize_t r = real(fd, iov, cnt);
  if (g_rec && r > 0) {
    auto it = g_fd.find(fd);
    if (it != g_fd.end()) {
      std::string d;
      for (int i = 0; i < cnt; i++) d.append((const char *) iov[i].iov_base, iov[i].iov_len);
      d.resize(r);
      g_log.push_back({1, it->second, d});
    }
  }
  return r;
}
int fclose(FILE *f)
{
  typedef int (*fn_t)(FILE *);
  static fn_t real = (fn_t) dlsym(RTLD_NEXT, "fclose");
  int fd = f ? fileno(f) : -1;
  std::string path;
  bool tr = false;
  if (g_rec) { auto it = g_fd.find(fd); if (it != g_fd.end()) { tr = true; path = it->second; } }
  int r = real(f);  // (flushes: the final write is logged before the close)
  if (tr) { g_fd.erase(fd); g_log.push_back({2, path, ""}); }
  return r;
}
int rename(const char *a, const char *b)
{
  typedef int (*fn_t)(const char *, const char *);
  static fn_t real = (fn_t) dlsym(RTLD_NEXT, "rename");
  int r = real(a, b);
  if (g_rec && r == 0 && (tracked_path(a) || tracked_path(b))) g_log.push_back({3, a, b});
  return r;
}
int remove(const char *a)
{
  typedef int (*fn_t)(const char *);
  static fn_t real = (fn_t) dlsym(RTLD_NEXT, "remove");
  int r = real(a);
  if (g_rec && r == 0 && tracked_path(a)) g_log.push_back({4, a, ""});
  return r;
}
int unlink(const char *a)
{
  typedef int (*fn_t)(const char *);
  static fn_t real = (fn_t) dlsym(RTLD_NEXT, "unlink");
  int r = real(a);
  if (g_rec && r == 0 && tracked_path(a)) g_log.push_back({4, a, ""});
  return r;
}
}

// ----------------------------------------------------------------------------------------------------
static const char *CONF =
    "colvarsRestartFrequency 2\n"
    "colvar {\n name d\n width 0.5\n lowerBoundary 1.0\n upperBoundary 3.0\n distance {\n group1 { atomNumbers 1 }\n group2 { atomNumbers 2 }\n }\n}\n"
    "harmonic {\n colvars d\n centers 1.0\n targetCenters 3.0\n targetNumSteps 6\n forceConstant 2.0\n outputAccumulatedWork on\n}\n"
    "metadynamics {\n name m\n colvars d\n hillWeight 0.5\n hillWidth 1.0\n newHillFrequency 1\n}\n";

static void place(vproxy &px, long s)
{
  static const double V[6] = {1.2, 1.7, 2.0, 0.6, 2.4, 1.4};
  px.x[0] = cvm::rvector(0, 0, 0);
  px.x[1] = cvm::rvector(V[s % 6], 0, 0);
}

typedef std::map<std::string, std::string> FS;

static void apply_ev(FS &fs, Ev const &e, long nbytes = -1)
{
  switch (e.op) {
  case 0: fs[e.a] = ""; break;
  case 1: fs[e.a] += (nbytes < 0 ? e.b : e.b.substr(0, nbytes)); break;
  case 2: break;
  case 3: { auto it = fs.find(e.a); if (it != fs.end()) { fs[e.b] = it->second; fs.erase(e.a); } break; }
  case 4: fs.erase(e.a); break;
  }
}

static std::string base_of(std::string const &p) { size_t k = p.rfind('/'); return k == std::string::npos ? p : p.substr(k + 1); }
// an event after which the state file holds a completely written state: it was closed, or a completed file was renamed to it
static bool completes_state(Ev const &e) { return e.completes; }

// The interposers log writes and closes under the path the file was OPENED with.  A file renamed while it is still open
// keeps receiving the writes under its new name (same inode): rewrite the log so that every event names the file's
// current path, and mark the events after which the state file holds a completely written state (it was closed under
// that name, or a file that had been closed was renamed onto it).
static void normalise_log(std::vector<Ev> &log)
{
  std::map<std::string, std::string> now;  // opening path -> current path, for files still open
  for (auto &e : log) {
    e.completes = false;
    if (e.op == 0) now[e.a] = e.a;
    else if (e.op == 1) { auto it = now.find(e.a); if (it != now.end()) e.a = it->second; }
    else if (e.op == 2) {
      auto it = now.find(e.a);
      if (it != now.end()) { e.a = it->second; now.erase(it); }
      e.completes = (base_of(e.a) == state_name());
    } else if (e.op == 3) {
      bool still_open = false;
      for (auto &kv : now) if (kv.second == e.a) { kv.second = e.b; still_open = true; }
      e.completes = !still_open && base_of(e.b) == state_name();
    }
  }
}

// load a candidate file in a fresh module; returns "" on failure, else the canonical text of the loaded state
static std::string try_load(std::string const &content, std::string const &dir, int &steps_ok)
{
  std::string path = dir + "/cand.colvars.state";
  { std::ofstream f(path.c_str(), std::ios::binary); f.write(content.data(), content.size()); }
  vproxy *px = new vproxy(2);
  place(*px, 0);
  if (px->config(CONF) != 0) { fprintf(stderr, "HARNESS-ERROR: loader config rejected\n"); exit(3); }
  std::string out;
  int e = 0;
  if (g_bias_mode) {
    cvm::clear_error();
    int rc = px->bias("m")->read_state_prefix(dir + "/cand");
    e = rc || cvm::get_error() || px->errtxt.size();
    cvm::clear_error();
    if (!e) px->bias("m")->write_state_string(out);
  } else {
    px->set_input_prefix(dir + "/cand");
    cvm::clear_error();
    int rc = px->colvars->setup_input();
    e = rc || cvm::get_error() || px->errtxt.size();
    cvm::clear_error();
    if (!e) out = px->state_text();
  }
  steps_ok = 0;
  delete px;
  ::unlink(path.c_str());
  return out;
}

struct Recorded { std::vector<Ev> log; std::vector<std::string> completed; };  // completed = contents at each close of the state file

// run a (segment of a) simulation writing states to <dir>/cc_out.colvars.state; optionally starting from a state
static Recorded record_run(std::string const &dir, bool binary, long first_step, long last_step, std::string const *start_state, FS const *initial_fs)
{
  if (binary) setenv("COLVARS_BINARY_RESTART", "1", 1); else unsetenv("COLVARS_BINARY_RESTART");
  // materialise the initial files (second-level runs start in the directory the crash left behind)
  if (initial_fs) for (auto &kv : *initial_fs) { std::ofstream f((dir + "/" + base_of(kv.first)).c_str(), std::ios::binary); f.write(kv.second.data(), kv.second.size()); }
  vproxy *px = new vproxy(2);
  place(*px, first_step);
  px->set_prefixes(dir + "/cc_out");
  if (px->config(CONF) != 0) { fprintf(stderr, "HARNESS-ERROR: config rejected: %s\n", px->errtxt.c_str()); exit(3); }
  if (start_state) {
    std::string p = dir + "/start.colvars.state";
    { std::ofstream f(p.c_str(), std::ios::binary); f.write(start_state->data(), start_state->size()); }
    px->set_input_prefix(dir + "/start");
  }
  g_log.clear();
  g_fd.clear();
  g_rec = true;
  for (long s = first_step; s <= last_step; s++) {
    place(*px, s);
    px->step(s);
    if (g_bias_mode && s % 2 == 0) px->bias("m")->write_state_prefix(dir + "/cc_bias");
  }
  px->end_run();
  delete px;
  g_rec = false;
  Recorded r;
  r.log = g_log;
  normalise_log(r.log);
  FS fs;
  if (initial_fs) for (auto &kv : *initial_fs) fs[dir + "/" + base_of(kv.first)] = kv.second;
  for (auto &e : r.log) {
    apply_ev(fs, e);
    if (completes_state(e)) r.completed.push_back(fs[e.op == 2 ? e.a : e.b]);
  }
  unsetenv("COLVARS_BINARY_RESTART");
  return r;
}

static void clean_dir(std::string const &dir)
{
  std::string cmd = "rm -rf '" + dir + "' && mkdir -p '" + dir + "'";
  if (system(cmd.c_str()) != 0) { fprintf(stderr, "HARNESS-ERROR: cannot prepare %s\n", dir.c_str()); exit(2); }
}

int main(int argc, char **argv)
{
  Args args(argc, argv);
  bool thorough = args.thorough();
  std::string scratch = args.kv.count("scratch") ? args.kv["scratch"] : ".";
  long bstride = thorough ? 1 : 5;

  Result total;
  for (int pass = 0; pass <= 2; pass++) {
    // pass 0: module state, text; 1: module state, binary; 2: the state file a single bias saves on request (text)
    int binary = (pass == 1);
    g_bias_mode = (pass == 2);
    std::string rdir = scratch + "/cc_rec" + std::to_string(pass);
    clean_dir(rdir);
    Recorded rec = record_run(rdir, binary != 0, 0, 8, NULL, NULL);
    if (rec.completed.size() < 4) { fprintf(stderr, "HARNESS-ERROR: expected >= 4 completed state writes, got %zu (log %zu events)\n", rec.completed.size(), rec.log.size()); return 2; }
    // determinism of the recording: a second recording gives the same log
    {
      std::string rdir2 = scratch + "/cc_rec" + std::to_string(pass) + "b";
      clean_dir(rdir2);
      Recorded rec2 = record_run(rdir2, binary != 0, 0, 8, NULL, NULL);
      bool same = rec2.log.size() == rec.log.size();
      for (size_t i = 0; same && i < rec.log.size(); i++)
        if (rec.log[i].op != rec2.log[i].op || base_of(rec.log[i].a) != base_of(rec2.log[i].a) || (rec.log[i].op == 1 && rec.log[i].b != rec2.log[i].b)) same = false;
      if (!same) { fprintf(stderr, "HARNESS-ERROR: operation log not reproducible\n"); return 2; }
    }
    total.notes.push_back(std::string(g_bias_mode ? "bias-level save, text" : (binary ? "binary" : "text")) + ": " + std::to_string(rec.log.size()) + " recorded file operations, " + std::to_string(rec.completed.size()) + " completed state writes");

    // crash points: (event index i, byte prefix n) = events [0,i) complete, plus n bytes of event i if it is a write
    struct CP { size_t i; long n; };
    std::vector<CP> cps;
    for (size_t i = 0; i <= rec.log.size(); i++) {
      cps.push_back({i, -1});
      if (i < rec.log.size() && rec.log[i].op == 1)
        for (long n = 1; n < (long) rec.log[i].b.size(); n += bstride) cps.push_back({i, n});
    }
    // canonical texts of the completed states (through the same loader)
    std::string ldir0 = scratch + "/cc_load_main" + std::to_string(pass);
    clean_dir(ldir0);
    std::vector<std::string> canon;
    for (auto &c : rec.completed) {
      int k;
      std::string t = try_load(c, ldir0, k);
      if (t.empty()) { fprintf(stderr, "HARNESS-ERROR: a completed state does not load\n"); return 2; }
      canon.push_back(t);
    }

    bool ok = run_sharded(args.jobs, [&](int shard, int nsh, Result &r) {
      std::string ldir = scratch + "/cc_load" + std::to_string(pass) + "_" + std::to_string(shard);
      clean_dir(ldir);
      for (size_t ci = shard; ci < cps.size(); ci += nsh) {
        CP const &cp = cps[ci];
        FS fs;
        size_t closes = 0;
        for (size_t i = 0; i < cp.i; i++) { apply_ev(fs, rec.log[i]); if (completes_state(rec.log[i])) closes++; }
        if (cp.n >= 0) apply_ev(fs, rec.log[cp.i], cp.n);
        r.count("evaluations");
        r.count("transitions");
        std::string X, XO;
        bool hasX = false, hasXO = false;
        for (auto &kv : fs) {
          if (base_of(kv.first) == state_name()) { X = kv.second; hasX = true; }
          if (base_of(kv.first) == state_name() + ".old") { XO = kv.second; hasXO = true; }
        }
        std::string det = std::string("{\"format\":\"") + (binary ? "binary" : "text") + "\"," + (g_bias_mode ? "\"file\":\"state saved by one bias on request (cv bias m save)\"," : "") + "\"crash_after_operations\":" + std::to_string(cp.i) + ",\"bytes_of_next_write\":" + std::to_string(cp.n) +
                          ",\"completed_states_before\":" + std::to_string(closes) + ",\"state_file_bytes\":" + (hasX ? std::to_string(X.size()) : "null") + ",\"old_file_bytes\":" + (hasXO ? std::to_string(XO.size()) : "null");
        r.seen("states", fnv(X + "|" + XO + std::to_string(hasX) + std::to_string(hasXO)));
        if (closes == 0) { r.count("before_first_completed_state"); continue; }
        int k;
        std::string lx = hasX ? try_load(X, ldir, k) : "", lo = hasXO ? try_load(XO, ldir, k) : "";
        bool okx = false, oko = false;
        for (size_t q = 0; q < closes && q < canon.size(); q++) { if (!lx.empty() && lx == canon[q]) okx = true; if (!lo.empty() && lo == canon[q]) oko = true; }
        // (a torn file that loads without error is counted here; whether a cut inside an object's block is reported is
        //  decided by the damaged-state part of this check)
        if ((!lx.empty() && !okx) || (!lo.empty() && !oko)) r.count("torn_files_that_load_without_error");
        if (!okx && !oko)
          r.violation(std::string("C11:crash:no-complete-state-on-disk:") + (g_bias_mode ? "bias-level-save" : (binary ? "binary" : "text")) + ":single-crash", det + "}");
        r.seen("nontrivial", fnv(det));
        if (ci % 1201 == 17) r.sample(det + "}");

        // ---- second level: restart from the survivor in the same directory, crash again during the next state write ----
        bool at_boundary = (cp.n < 0);
        if ((okx || oko) && (at_boundary || cp.n % (thorough ? 97 : 389) == 1)) {
          std::string const &survivor = okx ? X : XO;
          std::string d2 = ldir + "/second";
          clean_dir(d2);
          // the survivor tells us the step to restart from (a bias-level save is followed by a new simulation in the same
          // directory that saves the bias again under the same name)
          long st = 0;
          if (!g_bias_mode) {
            vproxy *pp = new vproxy(2);
            place(*pp, 0);
            pp->config(CONF);
            { std::ofstream f((d2 + "/s.colvars.state").c_str(), std::ios::binary); f.write(survivor.data(), survivor.size()); }
            pp->set_input_prefix(d2 + "/s");
            pp->colvars->setup_input();
            st = cvm::step_absolute();
            delete pp;
          }
          clean_dir(d2);
          Recorded rec2 = g_bias_mode ? record_run(d2, false, 0, 2, NULL, &fs) : record_run(d2, binary != 0, st, st + 2, &survivor, &fs);
          // crash points of the second run: operation boundaries and a few byte prefixes of each write
          for (size_t i2 = 0; i2 <= rec2.log.size(); i2++) {
            std::vector<long> ns = {-1};
            if (i2 < rec2.log.size() && rec2.log[i2].op == 1) { long sz = rec2.log[i2].b.size(); ns.push_back(1); ns.push_back(sz / 2); ns.push_back(sz - 1); }
            for (long n2 : ns) {
              if (n2 == 0) continue;
              FS fs2;
              for (auto &kv : fs) fs2[d2 + "/" + base_of(kv.first)] = kv.second;
              for (size_t i = 0; i < i2; i++) apply_ev(fs2, rec2.log[i]);
              if (n2 >= 0) apply_ev(fs2, rec2.log[i2], n2);
              r.count("evaluations");
              r.count("second_level_crash_points");
              std::string X2, XO2;
              bool h1 = false, h2 = false;
              for (auto &kv : fs2) {
                if (base_of(kv.first) == state_name()) { X2 = kv.second; h1 = true; }
                if (base_of(kv.first) == state_name() + ".old") { XO2 = kv.second; h2 = true; }
              }
              int k2;
              std::string l1 = h1 ? try_load(X2, ldir, k2) : "", l2 = h2 ? try_load(XO2, ldir, k2) : "";
              // complete = equal to a state completed by the first run before its crash or by the second run so far
              std::vector<std::string> good(canon.begin(), canon.begin() + std::min(closes, canon.size()));
              {
                FS fsc;
                for (auto &kv : fs) fsc[d2 + "/" + base_of(kv.first)] = kv.second;
                for (size_t i = 0; i < i2; i++) {
                  apply_ev(fsc, rec2.log[i]);
                  if (completes_state(rec2.log[i])) { int kk; std::string t = try_load(fsc[rec2.log[i].op == 2 ? rec2.log[i].a : rec2.log[i].b], ldir, kk); if (!t.empty()) good.push_back(t); }
                }
              }
              bool g1 = false, g2 = false;
              for (auto &g : good) { if (!l1.empty() && l1 == g) g1 = true; if (!l2.empty() && l2 == g) g2 = true; }
              if (!g1 && !g2)
                r.violation(std::string("C11:crash:no-complete-state-on-disk:") + (g_bias_mode ? "bias-level-save" : (binary ? "binary" : "text")) + ":second-crash-after-restart-from-" + (okx ? "state-file" : "old-backup"),
                            det + ",\"second_run_crash_after_operations\":" + std::to_string(i2) + ",\"bytes_of_next_write\":" + std::to_string(n2) + "}");
            }
          }
        }
      }
      std::string cmd = "rm -rf '" + ldir + "'";
      if (system(cmd.c_str())) {}
    }, total, 7200);
    if (!ok) return 2;
    std::string cmd = "rm -rf '" + rdir + "' '" + rdir + "b' '" + ldir0 + "'";
    if (system(cmd.c_str())) {}
  }
  write_result(args.out, "C11", args.tier, total, bstride == 1);
  return 0;
}
