// C16 reference model: the documented discrete Poisson problem of the ABF/TI free-energy integration,
// written from the definition (doc/colvars-refman-main.tex "Multidimensional free energy surfaces", Henin 2021,
// the finite-volume/Neumann stencil with halved edge weights cited in the code comments).  Shares no code with /repo/src.
//
// Geometry: gradients live at the centres of `nb[d]` bins per dimension; the potential lives on the bin CORNERS
// ("nodes"): nb[d]+1 nodes along a non-periodic dimension, nb[d] along a periodic one.  Node i sits at the lower
// edge of bin i.
//
// Divergence at a node: for every component c, (1/w_c) x the average, over the 2^(nd-1) pairs of bins that touch the
// node and differ only along c, of G_c(upper bin) - G_c(lower bin); a bin outside a non-periodic grid contributes 0
// (imposed-gradient Neumann condition).
//
// Laplacian at a node: sum over dimensions d and both neighbours m along d that exist of
//   F_d(n) * (A[m]-A[n]) / w_d^2,   F_d(n) = product over d' != d of (1 if d' periodic or n interior along d', else 1/2)
// (the control volume of a node on a non-periodic face is halved, which keeps the matrix symmetric).
#ifndef C16_REF_H
#define C16_REF_H

#include <vector>
#include <cmath>
#include <string>

namespace c16 {

struct RGrid {
  int nd = 0;
  int nb[3] = {1, 1, 1};      // bins (gradient grid)
  bool per[3] = {false, false, false};
  double w[3] = {1, 1, 1};
  double lb[3] = {0, 0, 0};   // lower edge of bin 0
  int np[3] = {1, 1, 1};      // nodes (potential grid)
  long nbins = 0, nnodes = 0;

  void finish()
  {
    nbins = 1; nnodes = 1;
    for (int d = 0; d < nd; d++) {
      np[d] = per[d] ? nb[d] : nb[d] + 1;
      nbins *= nb[d];
      nnodes *= np[d];
    }
  }
  long bin_index(const int *i) const
  {
    long k = 0;
    for (int d = 0; d < nd; d++) k = k * nb[d] + i[d];
    return k;
  }
  long node_index(const int *i) const
  {
    long k = 0;
    for (int d = 0; d < nd; d++) k = k * np[d] + i[d];
    return k;
  }
  void node_unindex(long k, int *i) const
  {
    for (int d = nd - 1; d >= 0; d--) { i[d] = (int) (k % np[d]); k /= np[d]; }
  }
  void bin_unindex(long k, int *i) const
  {
    for (int d = nd - 1; d >= 0; d--) { i[d] = (int) (k % nb[d]); k /= nb[d]; }
  }
  double node_coord(int i, int d) const { return lb[d] + w[d] * i; }
  double bin_center(int i, int d) const { return lb[d] + w[d] * (i + 0.5); }
  std::string str() const
  {
    std::string s = "{\"nd\":" + std::to_string(nd) + ",\"bins\":[";
    for (int d = 0; d < nd; d++) s += (d ? "," : "") + std::to_string(nb[d]);
    s += "],\"periodic\":[";
    for (int d = 0; d < nd; d++) s += (d ? "," : "") + std::string(per[d] ? "1" : "0");
    s += "],\"widths\":[";
    char b[40];
    for (int d = 0; d < nd; d++) { snprintf(b, 40, "%.15g", w[d]); s += (d ? "," : "") + std::string(b); }
    return s + "]}";
  }
};

// bin-averaged (optionally ramp-smoothed) gradient from accumulated sums and counts
inline double ref_bin_value(double sum, long count, bool has_counts, bool smoothed, int min_s, int full_s)
{
  if (!has_counts) return sum;
  if (count <= 0) return 0.0;
  double mean = sum / (double) count;
  if (!smoothed) return mean;
  double ramp;
  if (count <= min_s) ramp = 0.0;
  else if (count < full_s) ramp = (double) (count - min_s) / (double) (full_s - min_s);
  else ramp = 1.0;
  return mean * ramp;
}

// G: nbins*nd values (bin-major, component minor)
inline double ref_G(RGrid const &g, std::vector<double> const &G, const int *bi, int c)
{
  int w[3];
  for (int d = 0; d < g.nd; d++) {
    int i = bi[d];
    if (g.per[d]) { i %= g.nb[d]; if (i < 0) i += g.nb[d]; }
    else if (i < 0 || i >= g.nb[d]) return 0.0;
    w[d] = i;
  }
  return G[g.bin_index(w) * g.nd + c];
}

inline std::vector<double> ref_div(RGrid const &g, std::vector<double> const &G)
{
  std::vector<double> div(g.nnodes, 0.0);
  int combos = 1 << (g.nd - 1);
  for (long n = 0; n < g.nnodes; n++) {
    int ni[3];
    g.node_unindex(n, ni);
    double s = 0.0;
    for (int c = 0; c < g.nd; c++) {
      double acc = 0.0;
      for (int mask = 0; mask < combos; mask++) {
        int hi[3], lo[3], bit = 0;
        for (int d = 0; d < g.nd; d++) {
          if (d == c) { hi[d] = ni[d]; lo[d] = ni[d] - 1; }
          else { int off = (mask >> bit) & 1; bit++; hi[d] = lo[d] = ni[d] - off; }
        }
        acc += ref_G(g, G, hi, c) - ref_G(g, G, lo, c);
      }
      s += acc / (double) combos / g.w[c];
    }
    div[n] = s;
  }
  return div;
}

inline std::vector<double> ref_lap(RGrid const &g, std::vector<double> const &A)
{
  std::vector<double> L(g.nnodes, 0.0);
  for (long n = 0; n < g.nnodes; n++) {
    int ni[3];
    g.node_unindex(n, ni);
    double s = 0.0;
    for (int d = 0; d < g.nd; d++) {
      double F = 1.0;
      for (int e = 0; e < g.nd; e++) {
        if (e == d || g.per[e]) continue;
        if (ni[e] == 0 || ni[e] == g.np[e] - 1) F *= 0.5;
      }
      for (int sgn = -1; sgn <= 1; sgn += 2) {
        int mi[3] = {ni[0], ni[1], ni[2]};
        mi[d] = ni[d] + sgn;
        if (g.per[d]) { mi[d] %= g.np[d]; if (mi[d] < 0) mi[d] += g.np[d]; }
        else if (mi[d] < 0 || mi[d] >= g.np[d]) continue;
        s += F * (A[g.node_index(mi)] - A[n]) / (g.w[d] * g.w[d]);
      }
    }
    L[n] = s;
  }
  return L;
}

inline double l2(std::vector<double> const &v)
{
  double s = 0;
  for (double x : v) s += x * x;
  return std::sqrt(s);
}
inline double linf(std::vector<double> const &v)
{
  double s = 0;
  for (double x : v) s = std::fmax(s, std::fabs(x));
  return s;
}

}  // namespace c16
#endif
