// C19 — written outputs describe the internal state at the stated step.
// Explorer A: all value words of length L over a 4-letter alphabet x output-flag subsets x trajectory
// frequencies x run segmentations; analysis (running average, correlation functions) against textbook
// definitions applied to the dictated value word.
#include "vproxy.h"
#include "common.h"
#include "colvarbias_restraint.h"
#include "colvarbias_alb.h"
#include <fstream>
#include <dirent.h>

using namespace vc;

static const double VALS[4] = {1.0, 1.5, 2.5, 4.0};

static void rm_prefix(std::string const &prefix)
{
  DIR *d = opendir(".");
  if (!d) return;
  struct dirent *e;
  std::vector<std::string> del;
  while ((e = readdir(d))) {
    std::string n = e->d_name;
    if (n.compare(0, prefix.size(), prefix) == 0) del.push_back(n);
  }
  closedir(d);
  for (auto &n : del) unlink(n.c_str());
}

static std::vector<std::string> split_ws(std::string const &s)
{
  std::vector<std::string> t;
  std::istringstream is(s);
  std::string w;
  while (is >> w) t.push_back(w);
  return t;
}

static std::string slurp(std::string const &p)
{
  std::ifstream f(p.c_str());
  std::stringstream ss;
  ss << f.rdbuf();
  return ss.str();
}

static void place(vproxy &px, double v)
{
  px.x[0] = cvm::rvector(0, 0, 0);
  px.x[1] = cvm::rvector(v, 0.5 * v, 0.25);
}
static double dist_of(double v) { return std::sqrt(v * v + 0.25 * v * v + 0.0625); }

// ============================================================================
// Part 1: trajectory file
// ============================================================================
struct StepRec {
  long step;
  int run;
  bool have_e = false;
  std::map<std::string, std::vector<double>> col;  // label -> numbers
};

static std::vector<double> nums_of(colvarvalue const &v)
{
  std::vector<double> r;
  switch (v.type()) {
  case colvarvalue::type_scalar: r = {v.real_value}; break;
  case colvarvalue::type_3vector:
  case colvarvalue::type_unit3vector:
  case colvarvalue::type_unit3vectorderiv: r = {v.rvector_value.x, v.rvector_value.y, v.rvector_value.z}; break;
  case colvarvalue::type_quaternion:
  case colvarvalue::type_quaternionderiv:
    r = {v.quaternion_value.q0, v.quaternion_value.q1, v.quaternion_value.q2, v.quaternion_value.q3}; break;
  default: for (size_t i = 0; i < v.vector1d_value.size(); i++) r.push_back(v.vector1d_value[i]);
  }
  return r;
}

struct TrajCase {
  int flags;     // bit0 outputValue d, bit1 outputVelocity d, bit2 outputAppliedForce d, bit3 outputTotalForce d,
                 // bit4 outputEnergy h, bit5 outputCenters h, bit6 outputAccumulatedWork h
  int freq;
  int split;     // 0 = single run; K>0 = a second run starts by repeating engine step K
  int restart;   // with split>0: 0 = new run in the same process, 1 = fresh module loading the saved state, 2 = new run in the same process of an engine that counts the steps of each run from its first step (it_restart = it)
  int addcv;     // 0 = never; A>0 = a further variable "e" is defined just before step A
  std::vector<int> word;
  int toggle = 0;  // T>0: just before step T the script interface flips the velocity column of d ("cv colvar d set output_velocity ...")
  int flags_at(long s) const { return (toggle > 0 && s >= toggle) ? (flags ^ 2) : flags; }
  std::string json() const
  {
    std::string w = "[";
    for (size_t i = 0; i < word.size(); i++) w += (i ? "," : "") + std::to_string(word[i]);
    return "{\"part\":\"traj\",\"flags\":" + std::to_string(flags) + ",\"freq\":" + std::to_string(freq) +
           ",\"split\":" + std::to_string(split) + ",\"restart\":" + std::to_string(restart) + ",\"define_e_before_step\":" +
           std::to_string(addcv) + (toggle ? ",\"script_flips_output_velocity_before_step\":" + std::to_string(toggle) : std::string()) + ",\"word\":" + w + "]}";
  }
};

static std::string onoff(bool b) { return b ? "on" : "off"; }

static const char *E_CONF = "colvar {\n name e\n distanceZ {\n main { atomNumbers 2 }\n ref { atomNumbers 1 }\n }\n}\n";

static std::string traj_config(TrajCase const &c)
{
  std::string s;
  s += "colvarsTrajFrequency " + std::to_string(c.freq) + "\n";
  s += "colvar {\n name d\n outputValue " + onoff(c.flags & 1) + "\n outputVelocity " + onoff(c.flags & 2) +
       "\n outputAppliedForce " + onoff(c.flags & 4) + "\n outputTotalForce " + onoff(c.flags & 8) +
       "\n distance {\n group1 { atomNumbers 1 }\n group2 { atomNumbers 2 }\n }\n}\n";
  // a variable evaluated every second step only: its column is there at every line (with the value it last took)
  s += "colvar {\n name sl\n width 100.0\n timeStepFactor 2\n outputVelocity on\n distance {\n group1 { atomNumbers 1 }\n group2 { atomNumbers 2 }\n }\n}\n";
  // a unit-vector variable with its velocity
  s += "colvar {\n name du\n outputVelocity on\n distanceDir {\n group1 { atomNumbers 1 }\n group2 { atomNumbers 2 }\n }\n}\n";
  s += "colvar {\n name dv\n outputAppliedForce on\n distanceVec {\n group1 { atomNumbers 1 }\n group2 { atomNumbers 2 }\n }\n}\n";
  s += "harmonic {\n name h\n colvars d\n centers 1.0\n forceConstant 2.0\n targetCenters 3.0\n targetNumSteps 4\n outputEnergy " +
       onoff(c.flags & 16) + "\n outputCenters " + onoff(c.flags & 32) + "\n outputAccumulatedWork " + onoff(c.flags & 64) + "\n}\n";
  s += "harmonic {\n name hv\n colvars dv\n centers (1.0, 1.0, 0.0)\n forceConstant 0.5\n outputEnergy on\n}\n";
  // walls with different constants on the two sides and a growing force constant: energy and work have closed forms
  s += "harmonicWalls {\n name w\n colvars d\n lowerWalls 1.5\n upperWalls 2.5\n lowerWallConstant 1.0\n upperWallConstant 4.0\n"
       " targetForceConstant 6.0\n targetNumSteps 4\n outputEnergy on\n outputAccumulatedWork on\n}\n";
  return s;
}

// textbook energy / dU/dk of bias "w" (manual: half-harmonic beyond each wall; reference constant = geometric mean
// of the two wall constants = 2, sides scaled by 1/2 and 2; variable width 1)
static double w_k(long s) { return 2.0 + 4.0 * std::min(1.0, double(s) / 4.0); }
static double w_dudk(double x)
{
  if (x < 1.5) return 0.5 * 0.5 * (x - 1.5) * (x - 1.5);
  if (x > 2.5) return 0.5 * 2.0 * (x - 2.5) * (x - 2.5);
  return 0.0;
}

static void check_traj_case(TrajCase const &c, Result &r, std::string const &prefix)
{
  rm_prefix(prefix);
  std::string conf = traj_config(c);
  vproxy *px = new vproxy(2);
  place(*px, VALS[c.word[0]]);
  px->set_prefixes(prefix + "a");
  int rc = px->config(conf);
  if (rc != 0) { fprintf(stderr, "HARNESS-ERROR: traj config rejected: %s\n", px->errtxt.c_str()); exit(3); }
  std::vector<StepRec> recs;
  int run = 0;
  long L = c.word.size();
  std::vector<long> esteps;  // engine step of each call
  for (long s = 0; s < L; s++) {
    esteps.push_back(s);
    if (c.split > 0 && s == c.split) esteps.push_back(s);  // repeated step: new run
  }
  long prev = -1;
  bool have_e = false;
  std::vector<std::string> files = {prefix + "a.colvars.traj"};
  std::vector<std::string> texts;
  for (size_t k = 0; k < esteps.size(); k++) {
    long s = esteps[k];
    if (s == prev) {
      px->end_run();
      run++;
      if (c.restart == 2) px->colvars->it_restart = px->colvars->it;
      if (c.restart == 1) {
        std::string st = px->state_text();
        texts.push_back(slurp(files.back()));
        delete px;
        px = new vproxy(2);
        place(*px, VALS[c.word[s]]);
        px->set_prefixes(prefix + "b");
        files.push_back(prefix + "b.colvars.traj");
        TrajCase c2 = c; c2.flags = c.flags_at(s);
        std::string conf2 = traj_config(c2) + (have_e ? E_CONF : "");
        if (px->config(conf2) != 0) { fprintf(stderr, "HARNESS-ERROR: traj config rejected at restart: %s\n", px->errtxt.c_str()); exit(3); }
        px->queue_state_text(st);
      }
    }
    if (c.addcv > 0 && s == c.addcv && !have_e && s != prev) {
      if (px->config(E_CONF) != 0) { fprintf(stderr, "HARNESS-ERROR: adding variable e rejected: %s\n", px->errtxt.c_str()); exit(3); }
      have_e = true;
    }
    if (c.toggle > 0 && s == c.toggle && s != prev) {
      std::vector<std::string> wv = {"cv", "colvar", "d", "set", "output_velocity", (c.flags & 2) ? "off" : "on"};
      std::vector<unsigned char *> av;
      for (auto &x : wv) av.push_back((unsigned char *) x.c_str());
      cvm::clear_error();
      if (run_colvarscript_command((int) av.size(), av.data()) != 0) { fprintf(stderr, "library refused the script command: %s\n", px->errtxt.c_str()); exit(3); }
      cvm::clear_error();
    }
    place(*px, VALS[c.word[s]]);
    px->fsys[0] = cvm::rvector(0.3 * (s + 1), 0, 0);
    px->fsys[1] = cvm::rvector(-0.7, 0.1 * s, 0);
    rc = px->step(s);
    if (rc != 0) { fprintf(stderr, "HARNESS-ERROR: traj step error: %s\n", px->errtxt.c_str()); exit(3); }
    if (cvm::step_absolute() != s) { fprintf(stderr, "HARNESS-ERROR: step number %ld != %ld\n", (long) cvm::step_absolute(), s); exit(2); }
    r.count("transitions");
    colvar *d = px->cv("d"), *dv = px->cv("dv");
    colvarbias *h = px->bias("h"), *hv = px->bias("hv"), *w = px->bias("w");
    StepRec q;
    q.step = cvm::step_absolute();
    q.run = run;
    q.col["d"] = nums_of(d->x_reported);
    q.col["v_d"] = nums_of(d->v_reported);
    q.col["fa_d"] = nums_of(d->applied_force());
    q.col["ft_d"] = nums_of(d->ft_reported);
    q.col["dv"] = nums_of(dv->x_reported);
    q.col["sl"] = nums_of(px->cv("sl")->x_reported);
    q.col["v_sl"] = nums_of(px->cv("sl")->v_reported);
    q.col["du"] = nums_of(px->cv("du")->x_reported);
    q.col["v_du"] = nums_of(px->cv("du")->v_reported);
    q.col["fa_dv"] = nums_of(dv->applied_force());
    q.col["E_h"] = {h->bias_energy};
    q.col["E_hv"] = {hv->bias_energy};
    q.col["E_w"] = {w->bias_energy};
    q.col["x0_d"] = nums_of(dynamic_cast<colvarbias_restraint_centers *>(h)->colvar_centers[0]);
    q.col["W_h"] = {dynamic_cast<colvarbias_restraint_moving *>(h)->acc_work};
    q.col["W_w"] = {dynamic_cast<colvarbias_restraint_moving *>(w)->acc_work};
    if (have_e) q.col["e"] = nums_of(px->cv("e")->x_reported);
    q.have_e = have_e;
    // independent record: the value dictated by the simulator
    double dval = dist_of(VALS[c.word[s]]);
    if (std::fabs(q.col["d"][0] - dval) > 1e-12 * dval) {
      r.violation("C19:traj:internal-value-differs-from-dictated", c.json());
    }
    recs.push_back(q);
    prev = s;
  }
  px->end_run();
  texts.push_back(slurp(files.back()));
  delete px;

  // ---- parse (all files in order; every file must announce its columns before its first data line) ----
  struct Line { long step; std::map<std::string, std::vector<double>> col; std::set<std::string> announced; };
  std::vector<Line> lines;
  std::string alltext;
  for (auto &text : texts) {
    alltext += text;
    std::vector<std::string> labels;
    bool have_labels = false;
    std::istringstream is(text);
    std::string line;
    while (std::getline(is, line)) {
      std::vector<std::string> t = split_ws(line);
      if (t.empty()) continue;
      if (t[0] == "#") {
        if (t.size() < 2 || t[1] != "step") { r.violation("C19:traj:label-line-malformed", c.json()); return; }
        labels.assign(t.begin() + 2, t.end());
        have_labels = true;
        continue;
      }
      if (!have_labels) { r.violation("C19:traj:data-line-without-preceding-label-line", c.json()); return; }
      Line ln;
      size_t p = 0;
      ln.step = atol(t[p++].c_str());
      bool ok = true;
      for (auto &lab : labels) {
        bool vec = (lab == "dv" || lab == "fa_dv" || lab == "du" || lab == "v_du");
        std::vector<double> v;
        if (vec) {
          // "( a , b , c )"
          if (p + 7 > t.size() || t[p] != "(" || t[p + 2] != "," || t[p + 4] != "," || t[p + 6] != ")") { ok = false; break; }
          v = {atof(t[p + 1].c_str()), atof(t[p + 3].c_str()), atof(t[p + 5].c_str())};
          p += 7;
        } else {
          if (p + 1 > t.size()) { ok = false; break; }
          char *end = NULL;
          double x = strtod(t[p].c_str(), &end);
          if (*end != 0) { ok = false; break; }
          v = {x};
          p += 1;
        }
        if (ln.col.count(lab)) { ok = false; break; }  // duplicate label
        ln.col[lab] = v;
        ln.announced.insert(lab);
      }
      if (!ok || p != t.size()) {
        r.violation("C19:traj:columns-do-not-match-label-line",
                    c.json().substr(0, c.json().size() - 1) + ",\"line\":\"" + jesc(line.substr(0, 300)) + "\"}");
        return;
      }
      lines.push_back(ln);
    }
  }

  // ---- one line per multiple of freq within each run, carrying that step, with the recorded numbers ----
  std::vector<StepRec const *> expect;
  for (auto &q : recs) if (q.step % c.freq == 0) expect.push_back(&q);
  if (expect.size() != lines.size()) {
    r.violation(lines.size() > expect.size() ? "C19:traj:extra-lines" : "C19:traj:missing-lines",
                c.json().substr(0, c.json().size() - 1) + ",\"file\":\"" + jesc(alltext.substr(0, 3000)) + "\"}");
    return;
  }
  for (size_t i = 0; i < lines.size(); i++) {
    if (lines[i].step != expect[i]->step) { r.violation("C19:traj:wrong-step-number", c.json()); return; }
    // the announced columns must be exactly the outputs requested at that step
    std::set<std::string> want = {"dv", "fa_dv", "E_hv", "E_w", "W_w", "sl", "v_sl", "du", "v_du"};
    int const fl = c.flags_at(lines[i].step);
    if (fl & 1) want.insert("d");
    if (fl & 2) want.insert("v_d");
    if (fl & 8) want.insert("ft_d");
    if (fl & 4) want.insert("fa_d");
    if (fl & 16) want.insert("E_h");
    if (fl & 32) want.insert("x0_d");
    if (fl & 64) want.insert("W_h");
    if (expect[i]->have_e) want.insert("e");
    if (lines[i].announced != want) {
      r.violation("C19:traj:announced-columns-differ-from-requested-outputs",
                  c.json().substr(0, c.json().size() - 1) + ",\"step\":" + std::to_string(lines[i].step) + "}");
      return;
    }
    for (auto &kv : lines[i].col) {
      auto it = expect[i]->col.find(kv.first);
      if (it == expect[i]->col.end()) { r.violation("C19:traj:unknown-column:" + kv.first, c.json()); continue; }
      for (size_t k = 0; k < kv.second.size(); k++) {
        double a = kv.second[k], b = it->second[k];
        if (!close_rel(a, b, std::max(std::fabs(a), std::fabs(b)), 1e-12, 1e-13))
          r.violation("C19:traj:value-differs-from-state:" + kv.first,
                      c.json().substr(0, c.json().size() - 1) + ",\"line\":" + std::to_string(i) + ",\"written\":" + num(a) +
                          ",\"internal\":" + num(b) + "}");
      }
      r.count("numbers_compared", kv.second.size());
    }
    // textbook energy and accumulated work of the walls bias, from the dictated values alone
    {
      long s = lines[i].step;
      double e = w_k(s) * w_dudk(dist_of(VALS[c.word[s]]));
      double W = 0;
      for (long t = 1; t <= s; t++) W += w_dudk(dist_of(VALS[c.word[t]])) * (w_k(t) - w_k(t - 1));
      double ew = lines[i].col["E_w"][0], ww = lines[i].col["W_w"][0];
      if (!close_rel(ew, e, std::max(1.0, e), 1e-11, 1e-12))
        r.violation("C19:traj:bias-energy-differs-from-closed-form",
                    c.json().substr(0, c.json().size() - 1) + ",\"step\":" + std::to_string(s) + ",\"written\":" + num(ew) + ",\"expected\":" + num(e) + "}");
      if (!close_rel(ww, W, std::max(1.0, W), 1e-11, 1e-12))
        r.violation("C19:traj:accumulated-work-differs-from-sum-of-dU/dk-times-increment",
                    c.json().substr(0, c.json().size() - 1) + ",\"step\":" + std::to_string(s) + ",\"written\":" + num(ww) + ",\"expected\":" + num(W) + "}");
    }
  }
  // textbook velocity: finite difference of the dictated values (dt = 1), defined from the second step of a run on
  if ((c.flags & 2) || c.toggle) {
    for (size_t i = 0; i < lines.size(); i++) {
      long s = lines[i].step;
      if (!(c.flags_at(s) & 2)) continue;
      if (c.toggle && s <= c.toggle) continue;   // the first velocity after the column is switched on has no defined predecessor
      if (s == 0 || expect[i]->run > 0) continue;  // after a repeated step the reference previous value is ambiguous
      double vref = dist_of(VALS[c.word[s]]) - dist_of(VALS[c.word[s - 1]]);
      double a = lines[i].col["v_d"][0];
      if (!close_rel(a, vref, std::max(1.0, std::fabs(vref)), 1e-11, 1e-12))
        r.violation("C19:traj:velocity-not-finite-difference",
                    c.json().substr(0, c.json().size() - 1) + ",\"step\":" + std::to_string(s) + ",\"written\":" + num(a) +
                        ",\"expected\":" + num(vref) + "}");
    }
  }
  // ... of the unit-vector variable: a vector tangent to the unit sphere, the difference of the two directions (chord) or the
  // geodesic between them laid out in the tangent plane at either end (dt = 1)
  for (size_t i = 0; i < lines.size(); i++) {
    long s = lines[i].step;
    if (s == 0 || expect[i]->run > 0 || !lines[i].col.count("v_du") || lines[i].col["v_du"].size() != 3) continue;
    auto dir = [](double v) { double n = dist_of(v); return cvm::rvector(v / n, 0.5 * v / n, 0.25 / n); };
    cvm::rvector const un = dir(VALS[c.word[s]]), uo = dir(VALS[c.word[s - 1]]);
    cvm::rvector const got(lines[i].col["v_du"][0], lines[i].col["v_du"][1], lines[i].col["v_du"][2]);
    double const ct = std::min(1.0, un * uo), th = std::acos(ct), st = std::sqrt(std::max(0.0, 1.0 - ct * ct));
    double const fac = st > 1e-12 ? th / st : 1.0;
    cvm::rvector const cand[3] = {un - uo, fac * (un * ct - uo), fac * (un - uo * ct)};
    bool okv = false;
    for (auto const &cv3 : cand) if ((got - cv3).norm() <= 1e-9 * std::max(1.0, cv3.norm())) okv = true;
    if (!okv)
      r.violation("C19:traj:velocity-not-finite-difference:unit-vector-variable",
                  c.json().substr(0, c.json().size() - 1) + ",\"step\":" + std::to_string(s) + ",\"written\":\"" + num(got.x) + " " + num(got.y) + " " + num(got.z) +
                      "\",\"difference_of_the_two_directions\":\"" + num(cand[0].x) + " " + num(cand[0].y) + " " + num(cand[0].z) + "\"}");
  }
  // ... and of the variable evaluated every second step: the difference of its last two values over the two steps between them
  for (size_t i = 0; i < lines.size(); i++) {
    long s = lines[i].step;
    if (s < 2 || (s % 2) || !lines[i].col.count("v_sl")) continue;
    // (a further run in the same process goes on from the values of the previous one; its repeated first step and a fresh
    // process, whose previous value comes from the state file, are left out)
    if (expect[i]->run > 0 && (c.restart == 1 || s == c.split)) continue;
    double vref = 0.5 * (dist_of(VALS[c.word[s]]) - dist_of(VALS[c.word[s - 2]]));
    double a = lines[i].col["v_sl"][0];
    if (!close_rel(a, vref, std::max(1.0, std::fabs(vref)), 1e-11, 1e-12))
      r.violation("C19:traj:velocity-not-finite-difference:variable-with-a-time-step-factor",
                  c.json().substr(0, c.json().size() - 1) + ",\"step\":" + std::to_string(s) + ",\"written\":" + num(a) + ",\"expected\":" + num(vref) + "}");
  }
  r.seen("states", fnv(alltext));
  r.seen("nontrivial", fnv(c.json()));
}


// ============================================================================
// Part 1b: the columns of the adaptive linear bias (every subset of its three optional columns + energy)
// ============================================================================
static void check_alb_columns(int flags, Result &r, std::string const &prefix)
{
  rm_prefix(prefix);
  vproxy *px = new vproxy(2);
  px->set_target_temperature(300.0);
  place(*px, VALS[0]);
  px->set_prefixes(prefix + "alb");
  std::string conf = "colvarsTrajFrequency 1\ncolvar {\n name d\n outputValue off\n distance {\n group1 { atomNumbers 1 }\n group2 { atomNumbers 2 }\n }\n}\n"
                     "ALB {\n name alb\n colvars d\n centers 1.7\n updateFrequency 4\n forceRange 3.0\n forceConstant 0.4\n outputEnergy " + onoff(flags & 1) +
                     "\n outputCoupling " + onoff(flags & 2) + "\n outputCenters " + onoff(flags & 4) + "\n outputGradient " + onoff(flags & 8) + "\n}\n";
  std::string det = "{\"part\":\"alb-columns\",\"outputEnergy\":" + std::to_string(flags & 1) + ",\"outputCoupling\":" + std::to_string((flags >> 1) & 1) +
                    ",\"outputCenters\":" + std::to_string((flags >> 2) & 1) + ",\"outputGradient\":" + std::to_string((flags >> 3) & 1);
  if (px->config(conf) != 0) { fprintf(stderr, "library refused the ALB configuration: %s\n", px->errtxt.c_str()); exit(3); }
  std::vector<std::map<std::string, double>> recs;
  for (long s = 0; s < 7; s++) {
    place(*px, VALS[s % 3]);
    if (px->step(s) != 0) { fprintf(stderr, "library failed a step with ALB: %s\n", px->errtxt.c_str()); exit(3); }
    r.count("transitions");
    colvarbias_alb *a = dynamic_cast<colvarbias_alb *>(px->bias("alb"));
    std::map<std::string, double> q;
    q["E_alb"] = a->bias_energy;
    q["ForceConst_0"] = a->current_coupling[0];
    q["x0_d"] = a->colvar_centers[0].real_value;
    q["Grad_d"] = -2.0 * (a->means[0] / a->colvar_centers[0].real_value - 1) * a->ssd[0] / (std::max((double) a->update_calls, 2.0) - 1);
    recs.push_back(q);
  }
  px->end_run();
  std::string text = slurp(prefix + "alb.colvars.traj");
  delete px;
  std::istringstream is(text);
  std::string line;
  std::vector<std::string> labels;
  size_t nline = 0;
  while (std::getline(is, line)) {
    std::vector<std::string> t = split_ws(line);
    if (t.empty()) continue;
    if (t[0] == "#") { labels.assign(t.begin() + 2, t.end()); continue; }
    std::set<std::string> want;
    if (flags & 1) want.insert("E_alb");
    if (flags & 2) want.insert("ForceConst_0");
    if (flags & 4) want.insert("x0_d");
    if (flags & 8) want.insert("Grad_d");
    if (std::set<std::string>(labels.begin(), labels.end()) != want || labels.size() != want.size()) {
      std::string ls; for (auto &l : labels) ls += l + " ";
      r.violation("C19:traj:alb:announced-columns-differ-from-requested-outputs", det + ",\"labels\":\"" + jesc(ls) + "\"}");
      return;
    }
    if (t.size() != 1 + labels.size()) { r.violation("C19:traj:alb:columns-do-not-match-label-line", det + ",\"line\":\"" + jesc(line) + "\"}"); return; }
    long s = atol(t[0].c_str());
    if (s < 0 || s >= (long) recs.size()) { r.violation("C19:traj:alb:wrong-step-number", det + "}"); return; }
    for (size_t k = 0; k < labels.size(); k++) {
      double wv = atof(t[1 + k].c_str()), iv = recs[s][labels[k]];
      r.count("numbers_compared");
      if (!close_rel(wv, iv, std::max(1.0, std::fabs(iv)), 1e-11, 1e-12)) {
        r.violation("C19:traj:alb:value-under-a-label-is-not-that-quantity:" + labels[k], det + ",\"step\":" + std::to_string(s) + ",\"written\":" + num(wv) + ",\"internal\":" + num(iv) + "}");
        return;
      }
    }
    nline++;
  }
  if (flags && nline != 7) r.violation("C19:traj:alb:missing-lines", det + ",\"lines\":" + std::to_string(nline) + "}");
  r.seen("states", fnv(text));
  r.seen("nontrivial", fnv(det));
}

// ============================================================================
// Part 2: running averages and correlation functions
// ============================================================================
struct RA { int L, stride; };
struct ACF { int len, stride, off; bool norm; bool p2 = false; bool cross = false; };  // cross: corrFuncWithColvar b, with b = d^2 (scalar runs only)
//  // p2: corrFuncType coordinate_p2 (vector variables only)

// first: step number of the first step of the run (a simulation continued from step `first` without a Colvars state)
static void check_analysis_word(std::vector<int> const &word, std::vector<RA> const &ras, std::vector<ACF> const &acfs,
                                Result &r, std::string const &prefix, bool vec, long first = 0)
{
  rm_prefix(prefix);
  bool const first_step_nonzero = (first != 0);
  vproxy *px = new vproxy(2);
  place(*px, VALS[word[0]]);
  px->set_prefixes(prefix);
  std::string conf;
  // correlation functions are written only at restart-frequency steps: make the last step one
  conf += "colvarsRestartFrequency " + std::to_string(word.size() - 1) + "\n";
  std::string comp = vec ? "distanceVec" : "distance";
  for (size_t i = 0; i < ras.size(); i++)
    conf += "colvar {\n name r" + std::to_string(i) + "\n runAve on\n runAveLength " + std::to_string(ras[i].L) +
            "\n runAveStride " + std::to_string(ras[i].stride) + "\n " + comp +
            " {\n group1 { atomNumbers 1 }\n group2 { atomNumbers 2 }\n }\n}\n";
  if (!vec) conf += "colvar {\n name b\n distance {\n componentExp 2\n group1 { atomNumbers 1 }\n group2 { atomNumbers 2 }\n }\n}\n";
  for (size_t i = 0; i < acfs.size(); i++)
    conf += "colvar {\n name a" + std::to_string(i) + "\n corrFunc on\n" + ((acfs[i].cross && !vec) ? " corrFuncWithColvar b\n" : "") + " corrFuncType " + ((acfs[i].p2 && vec) ? "coordinate_p2" : "coordinate") + "\n corrFuncLength " +
            std::to_string(acfs[i].len) + "\n corrFuncStride " + std::to_string(acfs[i].stride) + "\n corrFuncOffset " +
            std::to_string(acfs[i].off) + "\n corrFuncNormalize " + onoff(acfs[i].norm) + "\n " + comp +
            " {\n group1 { atomNumbers 1 }\n group2 { atomNumbers 2 }\n }\n}\n";
  if (px->config(conf) != 0) { fprintf(stderr, "HARNESS-ERROR: analysis config rejected: %s\n", px->errtxt.c_str()); exit(3); }
  long L = word.size();
  if (first) { px->colvars->it = px->colvars->it_restart = first; }
  for (long s = 0; s < L; s++) {
    place(*px, VALS[word[s]]);
    if (px->step(first + s) != 0) { fprintf(stderr, "HARNESS-ERROR: analysis step error: %s\n", px->errtxt.c_str()); exit(3); }
    r.count("transitions");
  }
  px->end_run();
  std::vector<std::string> ratext, acftext;
  for (size_t i = 0; i < ras.size(); i++) ratext.push_back(slurp(prefix + ".r" + std::to_string(i) + ".runave.traj"));
  for (size_t i = 0; i < acfs.size(); i++) acftext.push_back(slurp(prefix + ".a" + std::to_string(i) + ".corrfunc.dat"));
  delete px;

  std::string wj = "[";
  for (size_t i = 0; i < word.size(); i++) wj += (i ? "," : "") + num(VALS[word[i]]);
  wj += "]";
  auto value = [&](long s) {
    std::vector<double> v;
    double a = VALS[word[s]];
    if (vec) v = {a, 0.5 * a, 0.25};
    else v = {dist_of(a)};
    return v;
  };
  std::string kind = vec ? "3vector" : "scalar";

  // ---- running average ----
  for (size_t i = 0; i < ras.size(); i++) {
    std::istringstream is(ratext[i]);
    std::string line;
    long nlines = 0;
    while (std::getline(is, line)) {
      std::vector<std::string> t = split_ws(line);
      if (t.empty() || t[0][0] == '#') continue;
      // step, mean (1 or 7 tokens), stddev
      std::vector<double> nums;
      for (auto &tok : t) if (tok != "(" && tok != ")" && tok != ",") nums.push_back(atof(tok.c_str()));
      size_t dim = vec ? 3 : 1;
      if (nums.size() != 2 + dim) { r.violation("C19:runave:line-malformed", "{\"line\":\"" + jesc(line) + "\"}"); continue; }
      long s = (long) nums[0] - first;   // the label is the step number of the simulation
      nlines++;
      std::string det = "{\"part\":\"runave\",\"type\":\"" + kind + "\",\"values\":" + wj + ",\"runAveLength\":" + std::to_string(ras[i].L) +
                        ",\"runAveStride\":" + std::to_string(ras[i].stride) + (first ? ",\"first_step_of_the_run\":" + std::to_string(first) : std::string()) +
                        ",\"step_label\":" + std::to_string((long) nums[0]);
      long wfirst = s - (long) (ras[i].L - 1) * ras[i].stride;
      if (s < 0 || s >= L || wfirst < 0) { r.violation(std::string("C19:runave:line-for-incomplete-window") + (first_step_nonzero ? "/run-starting-at-a-nonzero-step" : ""), det + "}"); continue; }
      std::vector<double> mean(dim, 0.0);
      for (int k = 0; k < ras[i].L; k++) {
        std::vector<double> v = value(s - (long) k * ras[i].stride);
        for (size_t c = 0; c < dim; c++) mean[c] += v[c] / ras[i].L;
      }
      double var = 0;
      for (int k = 0; k < ras[i].L; k++) {
        std::vector<double> v = value(s - (long) k * ras[i].stride);
        for (size_t c = 0; c < dim; c++) var += (v[c] - mean[c]) * (v[c] - mean[c]);
      }
      double sd_sample = std::sqrt(var / (ras[i].L - 1)), sd_pop = std::sqrt(var / ras[i].L);
      r.count("runave_lines");
      bool mean_ok = true;
      for (size_t c = 0; c < dim; c++)
        if (!close_rel(nums[1 + c], mean[c], std::max(1.0, std::fabs(mean[c])), 1e-11, 1e-12)) mean_ok = false;
      if (!mean_ok) {
        std::string phase = (wfirst >= 2 || (wfirst >= 1 && ras[i].stride == 1)) ? "after-first-window" : "first-window";
        r.violation("C19:runave:mean-differs-from-window-mean/" + phase,
                    det + ",\"written_mean\":" + num(nums[1]) + ",\"expected_mean\":" + num(mean[0]) + "}");
      }
      double sd = nums[1 + dim];
      // either normalisation of the textbook standard deviation is accepted
      if (!close_rel(sd, sd_sample, std::max(1.0, sd_sample), 1e-10, 1e-12) &&
          !close_rel(sd, sd_pop, std::max(1.0, sd_pop), 1e-10, 1e-12))
        r.violation("C19:runave:stddev-differs-from-window-stddev",
                    det + ",\"written_stddev\":" + num(sd) + ",\"expected_sample\":" + num(sd_sample) + ",\"expected_population\":" +
                        num(sd_pop) + "}");
    }
    // non-vacuity: with enough steps there must be output
    if (L - 1 >= (long) ras[i].L * ras[i].stride && nlines == 0)
      r.violation("C19:runave:no-output", "{\"values\":" + wj + "}");
  }

  // ---- correlation functions (autocorrelation, coordinate type) ----
  for (size_t i = 0; i < acfs.size(); i++) {
    if (first) break;   // (the file is written at multiples of the restart frequency in absolute steps: not at the end of such a run)
    ACF const &a = acfs[i];
    std::istringstream is(acftext[i]);
    std::string line;
    long nsamples = -1;
    std::vector<std::pair<long, double>> rows;
    while (std::getline(is, line)) {
      size_t p = line.find("Number of samples =");
      if (p != std::string::npos) { nsamples = atol(line.c_str() + p + 19); continue; }
      std::vector<std::string> t = split_ws(line);
      if (t.empty() || t[0][0] == '#') continue;
      if (t.size() != 2) { r.violation("C19:acf:line-malformed", "{\"line\":\"" + jesc(line) + "\"}"); continue; }
      rows.push_back({atol(t[0].c_str()), atof(t[1].c_str())});
    }
    if (rows.empty()) { r.count("acf_empty"); continue; }
    if (a.norm) nsamples += 1;  // the header subtracts one "degree of freedom" when normalising
    std::string det = "{\"part\":\"acf\",\"type\":\"" + kind + "\",\"values\":" + wj + ",\"corrFuncLength\":" + std::to_string(a.len) +
                      ",\"corrFuncStride\":" + std::to_string(a.stride) + ",\"corrFuncOffset\":" + std::to_string(a.off) +
                      ",\"normalize\":" + (a.norm ? "true" : "false") + ((a.p2 && vec) ? ",\"corrFuncType\":\"coordinate_p2\"" : "") +
                      ((a.cross && !vec) ? ",\"corrFuncWithColvar\":\"b = d^2\"" : "");
    // time origins: the N most recent steps t whose whole row of lags exists
    long maxlag = (long) (a.off + a.len) * a.stride;
    std::vector<long> origins;
    for (long t = L - 1; t >= 0 && (long) origins.size() < nsamples; t--)
      if (t - maxlag >= 0) origins.push_back(t);
    if ((long) origins.size() < nsamples || nsamples <= 0) {
      r.violation("C19:acf:more-samples-than-complete-rows", det + ",\"samples\":" + std::to_string(nsamples) + "}");
      continue;
    }
    auto corr = [&](long lag) {
      double c = 0;
      for (long t : origins) {
        std::vector<double> u = value(t), w = value(t - lag);
        if (a.cross && !vec) w[0] = w[0] * w[0];   // C_ab(lag) = < a(t) b(t - lag) >, b = d^2
        double uw = 0, uu = 0, ww = 0;
        for (size_t k = 0; k < u.size(); k++) { uw += u[k] * w[k]; uu += u[k] * u[k]; ww += w[k] * w[k]; }
        if (a.p2 && vec) { double cs = uw / std::sqrt(uu * ww); c += 1.5 * cs * cs - 0.5; }  // second Legendre polynomial of the angle
        else c += uw;
      }
      return c / origins.size();
    };
    double c0 = corr(0);
    for (size_t k = 0; k < rows.size(); k++) {
      long lag = rows[k].first;
      r.count("acf_rows");
      if (lag < 0 || lag > maxlag || lag % a.stride) { r.violation("C19:acf:unexpected-lag", det + ",\"lag\":" + std::to_string(lag) + "}"); continue; }
      double ref = corr(lag);
      if (a.norm) ref /= c0;
      if (!close_rel(rows[k].second, ref, std::max(1.0, std::fabs(ref)), 1e-10, 1e-12)) {
        std::string where = (k == 0 && a.off > 0) ? "first-row-with-offset" : (k == 0 ? "first-row" : "row");
        if (a.cross && !vec) where = "cross-correlation/" + where;
        r.violation("C19:acf:value-differs-from-time-average/" + where,
                    det + ",\"lag\":" + std::to_string(lag) + ",\"written\":" + num(rows[k].second) + ",\"expected\":" + num(ref) + "}");
      }
    }
  }
  r.seen("states", fnv(ratext.empty() ? "" : ratext[0]) ^ fnv(acftext.empty() ? "" : acftext[0]));
  r.seen("nontrivial", fnv(wj + kind));
}

int main(int argc, char **argv)
{
  Args args(argc, argv);
  bool thorough = args.thorough();
  int Ltraj = thorough ? 5 : 4;
  int Lana = 7;  // odd: the last step (L-1) is a multiple of every stride used
  int nv_ana = thorough ? 4 : 3;
  int nv_traj = 3;

  // enumerate trajectory cases
  std::vector<TrajCase> tc;
  {
    long nwords = 1;
    for (int i = 0; i < Ltraj; i++) nwords *= nv_traj;
    for (int flags = 0; flags < 128; flags++)
      for (int freq = 1; freq <= 3; freq++)
        for (int split = 0; split < Ltraj; split++)
          for (int restart = 0; restart <= (split ? 2 : 0); restart++)
            for (int addcv = 0; addcv < Ltraj; addcv++)
              for (long w = 0; w < nwords; w++) {
                // quick tier: all flag subsets x freq x segmentation x definition point on 1 word in 9; all words on 6 flag subsets
                // with a reduced segmentation/definition menu
                std::vector<int> word(Ltraj);
                long q = w;
                for (int i = 0; i < Ltraj; i++) { word[i] = q % nv_traj; q /= nv_traj; }
                if (thorough) {
                  // thorough tier: all flag subsets x freq x segmentation x definition point on 1 word in 9 (27 words of 5
                  // values); all 243 words on 6 flag subsets (the full product is 4.2 million module runs with file output)
                  bool word_sel = (w % 9 == 5);   // (words beginning with two different values)
                  bool flag_sel = (flags == 0 || flags == 127 || flags == 0x55 || flags == 0x2a || flags == 7 || flags == 0x78);
                  if (!(word_sel || flag_sel)) continue;
                }
                if (!thorough) {
                  bool word_sel = (w % 27 == 5);   // (words beginning with three different values)
                  bool flag_sel = (flags == 0 || flags == 127 || flags == 0x55 || flags == 0x2a || flags == 7 || flags == 0x78);
                  bool small_menu = (addcv == 0 || addcv == 1 || addcv == Ltraj - 1) && (split == 0 || split == 2);
                  if (!(word_sel || (flag_sel && small_menu && (w % 3 == 1)))) continue;
                }
                tc.push_back(TrajCase{flags, freq, split, restart, addcv, word});
              }
  }
  // the same with the velocity column of d flipped from the script interface before step T (all T, a subset of the rest)
  {
    size_t n0 = tc.size();
    for (size_t i = 0; i < n0; i += 7)
      for (int T = 1; T < Ltraj; T++) {
        if (tc[i].restart == 1 && tc[i].split && T <= tc[i].split) continue;  // (the flag is not part of the saved state: a new session starts from its configuration)
        TrajCase c = tc[i]; c.toggle = T; tc.push_back(c);
      }
  }
  std::vector<RA> ras = {{2, 1}, {3, 1}, {3, 2}, {2, 2}};
  std::vector<ACF> acfs;
  for (int len = 2; len <= 3; len++)
    for (int stride = 1; stride <= 2; stride++)
      for (int off = 0; off <= 1; off++)
        for (int nrm = 0; nrm <= 1; nrm++) acfs.push_back(ACF{len, stride, off, nrm != 0});
  // second-Legendre-polynomial correlation functions (used for the vector-valued variable; same as coordinate for the scalar)
  for (int stride = 1; stride <= 2; stride++) for (int nrm = 0; nrm <= 1; nrm++) { ACF a{2, stride, 0, nrm != 0}; a.p2 = true; acfs.push_back(a); }
  // cross-correlation with a second variable (scalar runs)
  for (int stride = 1; stride <= 2; stride++) for (int nrm = 0; nrm <= 1; nrm++) { ACF a{2, stride, 0, nrm != 0}; a.cross = true; acfs.push_back(a); }
  long nana = 1;
  for (int i = 0; i < Lana; i++) nana *= nv_ana;

  Result total;
  bool ok = run_sharded(args.jobs, [&](int shard, int n, Result &r) {
    std::string prefix = "s" + std::to_string(shard) + "_";
    for (size_t i = shard; i < tc.size(); i += n) {
      r.count("evaluations");
      r.count("traj_cases");
      check_traj_case(tc[i], r, prefix);
      if (i < 2) r.sample(tc[i].json());
    }
    for (int fl = shard; fl < 16; fl += n) { r.count("evaluations"); check_alb_columns(fl, r, prefix); }
    for (long w = shard; w < nana; w += n) {
      std::vector<int> word(Lana);
      long q = w;
      for (int i = 0; i < Lana; i++) { word[i] = q % nv_ana; q /= nv_ana; }
      for (int vec = 0; vec <= 1; vec++) {
        // the vector-valued variable is run on the words over the first three values (the fourth value only adds scalar cases)
        if (vec) { bool small = true; for (int i = 0; i < Lana; i++) if (word[i] >= 3) small = false; if (!small) continue; }
        r.count("evaluations");
        r.count("analysis_words");
        check_analysis_word(word, ras, acfs, r, prefix, vec != 0);
        if (!vec && (w % 5) == 2) { r.count("evaluations"); check_analysis_word(word, ras, acfs, r, prefix, false, 100); }
      }
      if (w == 27) {
        std::string wj = "[";
        for (int i = 0; i < Lana; i++) wj += (i ? "," : "") + num(VALS[word[i]]);
        r.sample("{\"part\":\"analysis\",\"values\":" + wj + "],\"runave\":\"(L,stride) in {(2,1),(3,1),(3,2),(2,2)}\",\"acf\":\"16 parameter tuples\"}");
      }
    }
    rm_prefix(prefix);
  }, total);
  if (!ok) return 2;
  write_result(args.out, "C19", args.tier, total, true);
  return 0;
}
