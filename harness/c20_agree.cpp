// C20 part 2 — numbers returned by script queries are the numbers the module holds and hands to the engine.
// After each step of a scripted run: every query command is issued, its text parsed, and compared (at the precision the
// script prints: 15 significant digits for variable-typed results, 6 for plain reals) with (a) the engine-side arrays of the
// simulator, (b) the module's members read directly, (c) own arithmetic where the definition is elementary (scenario A).
#include "c20_common.h"
#include "colvarbias_abf.h"

static bool parse_nums(std::string s, std::vector<double> &o)
{
  o.clear();
  for (char &c : s) if (c == '{' || c == '}' || c == '(' || c == ')' || c == ',' || c == '\n' || c == '\t') c = ' ';
  std::istringstream is(s);
  std::string t;
  bool ok = true;
  while (is >> t) {
    char *e = NULL;
    double d = strtod(t.c_str(), &e);
    if (e == t.c_str() || *e != '\0') { ok = false; o.push_back(NAN); } else o.push_back(d);
  }
  return ok;
}

// equal at `digits` significant digits (half a unit of the last printed digit, plus own-arithmetic slack `extra`)
static bool eq_at(double printed, double internal, int digits, double extra = 0.0)
{
  if (std::isnan(printed) || std::isnan(internal)) return std::isnan(printed) && std::isnan(internal);
  if (std::isinf(internal)) return printed == internal;
  double tol = 0.5000001 * std::pow(10.0, 1 - digits) * std::fabs(internal) + extra + 1e-300;
  return std::fabs(printed - internal) <= tol;
}

struct Ctx {
  Result *r; Scn const *sc; vproxy *px; long step; bool same_step; int variant;
  std::vector<cvm::rvector> ptb;  // system + Colvars force of the previous engine step (what a lagging engine reports)
  long abs0 = 0;
  void bad(std::string const &cmd, std::string const &what, std::string const &got, std::string const &want)
  {
    r->violation("C20:agree:" + cmd + ":" + what,
                 "{\"part\":2,\"scenario\":\"" + sc->id + "\",\"total_forces_same_step\":" + (same_step ? "true" : "false") + ",\"variant\":" + std::to_string(variant) +
                 ",\"after_engine_step\":" + std::to_string(step) + ",\"command\":\"" + jesc(cmd) + "\",\"script_returned\":\"" + jesc(got.substr(0, 400)) +
                 "\",\"expected\":\"" + jesc(want.substr(0, 400)) + "\"}");
  }
  void one(std::string const &key) { r->count("evaluations"); r->count("p2_comparisons"); r->seen("nontrivial", "p2:" + sc->id + ":" + std::to_string(variant) + ":" + std::to_string(step) + ":" + key); }

  std::string vs(std::vector<double> const &v) { std::string s; for (double d : v) s += num(d) + " "; return s; }

  // command -> numbers; compare with `want`
  void nums(std::vector<std::string> const &w, std::string const &what, std::vector<double> const &want, int digits, double extra = 0.0)
  {
    std::string cmd;
    for (size_t i = 1; i < w.size(); i++) cmd += (i > 1 ? " " : "") + w[i];
    one(cmd + ":" + what);
    SR s = cvs(*px, w);
    std::vector<double> got;
    if (s.rc != 0) { bad(cmd, "query-failed", s.out + s.msgs, vs(want)); return; }
    if (!parse_nums(s.out, got)) { bad(cmd, "result-not-numeric", s.out, vs(want)); return; }
    if (got.size() != want.size()) { bad(cmd, what + ":count", s.out, vs(want)); return; }
    for (size_t i = 0; i < got.size(); i++)
      if (!eq_at(got[i], want[i], digits, extra)) { bad(cmd, what, s.out, vs(want)); return; }
  }
  static std::string strip(std::string const &t)
  {
    size_t a = t.find_first_not_of(" \n\t"), b = t.find_last_not_of(" \n\t");
    return a == std::string::npos ? std::string() : t.substr(a, b - a + 1);
  }
  static std::string sorted_words(std::string const &t)
  {
    std::istringstream is(t); std::string x; std::set<std::string> v;
    while (is >> x) v.insert(x);
    std::string o; for (auto &y : v) o += y + " ";
    return o;
  }
  // mode 0 exact, 1 ignoring surrounding white space, 2 as a set of words, 3 ignoring letter case
  void text(std::vector<std::string> const &w, std::string const &what, std::string want, int mode = 0)
  {
    std::string cmd;
    for (size_t i = 1; i < w.size(); i++) cmd += (i > 1 ? " " : "") + w[i];
    one(cmd + ":" + what);
    SR s = cvs(*px, w);
    if (s.rc != 0) { bad(cmd, "query-failed", s.out + s.msgs, want); return; }
    std::string got = s.out;
    if (mode == 1) { got = strip(got); want = strip(want); }
    if (mode == 2) { got = sorted_words(got); want = sorted_words(want); }
    if (mode == 3) { for (char &ch : got) ch = tolower(ch); for (char &ch : want) ch = tolower(ch); }
    if (got != want) bad(cmd, what, s.out, want);
  }
};

static std::vector<double> rv(std::vector<cvm::rvector> const &a)
{
  std::vector<double> o;
  for (auto &v : a) { o.push_back(v.x); o.push_back(v.y); o.push_back(v.z); }
  return o;
}

// expected atom numbers (0-based) per group of each variable, from the scenario definitions
static std::vector<std::vector<int>> groups_of(Scn const &sc, int cvi)
{
  if (sc.id == "A") return cvi == 0 ? std::vector<std::vector<int>>{{0, 1}, {2}} : std::vector<std::vector<int>>{{3}, {4, 5}};
  if (sc.id == "B") return cvi == 0 ? std::vector<std::vector<int>>{{0}, {1}} : std::vector<std::vector<int>>{{2, 3, 4, 5}};
  return cvi == 0 ? std::vector<std::vector<int>>{{4, 5}, {0}} : std::vector<std::vector<int>>{{1, 2}};
}

struct Hist { std::map<int, long> abf_bin_visits; std::vector<double> zvals; };

static void battery(Ctx &c, Hist &h)
{
  vproxy &px = *c.px;
  Scn const &sc = *c.sc;
  colvarmodule *cm = px.colvars;
  long nsteps_done = c.step + 1;

  // ---- module level
  if (c.abs0 + c.step < 2147483647L) {
    c.nums(W({"cv", "getstepabsolute"}), "internal-step", {(double) cm->it}, 15);
    c.nums(W({"cv", "getstepabsolute"}), "engine-step", {(double) (c.abs0 + c.step)}, 15);
  } else {
    if ((long) cm->it != c.abs0 + c.step) herr("step counter of the module is not the engine's");
    c.nums(W({"cv", "getstepabsolute"}), "step-number-above-2^31", {(double) (c.abs0 + c.step)}, 15);
  }
  c.nums(W({"cv", "getsteprelative"}), "engine-step", {(double) c.step}, 15);
  c.nums(W({"cv", "getenergy"}), "internal-total_bias_energy", {cm->total_bias_energy}, 6);
  {
    double cve = 0.0;  // energy of extended degrees of freedom, also handed to the engine
    for (colvar *cv : *(cm->variables())) if (cv->is_enabled(colvardeps::f_cv_extended_Lagrangian)) cve += cv->kinetic_energy + cv->potential_energy;
    c.nums(W({"cv", "getenergy"}), "energy-handed-to-engine", {px.energy - cve}, 6, 1e-12);
  }
  {
    std::vector<double> ids, ms, qs, pos, tf, af, engine_pos, engine_m, engine_q, engine_af, engine_tf;
    for (size_t i = 0; i < px.atoms_ids.size(); i++) {
      int a = px.atoms_ids[i];
      ids.push_back(a); ms.push_back(px.atoms_masses[i]); qs.push_back(px.atoms_charges[i]);
      engine_m.push_back(px.m[a]); engine_q.push_back(px.q[a]);
      engine_pos.push_back(px.x[a].x); engine_pos.push_back(px.x[a].y); engine_pos.push_back(px.x[a].z);
      engine_af.push_back(px.fapp[a].x); engine_af.push_back(px.fapp[a].y); engine_af.push_back(px.fapp[a].z);
      cvm::rvector t(0, 0, 0);
      if (px.total_force_requested) {
        if (c.same_step) t = px.fsys[a];
        else if (c.step > 0) t = c.ptb[a];
      }
      engine_tf.push_back(t.x); engine_tf.push_back(t.y); engine_tf.push_back(t.z);
    }
    std::set<int> want_ids;
    for (int v = 0; v < 2; v++) for (auto &g : groups_of(sc, v)) for (int a : g) want_ids.insert(a);
    std::set<int> got_ids(px.atoms_ids.begin(), px.atoms_ids.end());
    c.one("atoms-requested");
    if (want_ids != got_ids) c.bad("getatomids", "engine-atom-table-differs-from-configuration", c.vs(ids), "");
    c.nums(W({"cv", "getatomids"}), "engine-array", ids, 15);
    c.nums(W({"cv", "getatommasses"}), "engine-masses", engine_m, 6);
    c.nums(W({"cv", "getatomcharges"}), "engine-charges", engine_q, 6);
    c.nums(W({"cv", "getatompositions"}), "engine-positions", engine_pos, 15);
    c.nums(W({"cv", "getatomtotalforces"}), "engine-total-forces", engine_tf, 15);
    c.nums(W({"cv", "getatomtotalforces"}), "proxy-array", rv(px.atoms_total_forces), 15);
    c.nums(W({"cv", "getatomappliedforces"}), "forces-handed-to-engine", engine_af, 15);
    c.nums(W({"cv", "getatomappliedforces"}), "proxy-array", rv(px.atoms_new_colvar_forces), 15);
    c.nums(W({"cv", "getnumatoms"}), "count", {(double) want_ids.size()}, 15);
    c.nums(W({"cv", "getnumactiveatoms"}), "count", {(double) want_ids.size()}, 15);
    c.nums(W({"cv", "getnumactiveatomgroups"}), "count", {0.0}, 15);
    // statistics of the applied forces: own arithmetic on the forces the engine received
    double mx = 0, s2 = 0; int imax = -1;
    for (size_t i = 0; i < px.atoms_ids.size(); i++) {
      cvm::rvector f = px.fapp[px.atoms_ids[i]];
      double n2 = f.x * f.x + f.y * f.y + f.z * f.z;
      s2 += n2;
      if (n2 > mx) { mx = n2; imax = px.atoms_ids[i]; }
    }
    c.nums(W({"cv", "getatomappliedforcesmax"}), "own-arithmetic", {std::sqrt(mx)}, 6, 1e-12);
    c.nums(W({"cv", "getatomappliedforcesrms"}), "own-arithmetic", {px.atoms_ids.size() ? std::sqrt(s2 / px.atoms_ids.size()) : 0.0}, 6, 1e-12);
    if (imax >= 0) c.nums(W({"cv", "getatomappliedforcesmaxid"}), "own-arithmetic", {(double) imax}, 15);
  }
  c.text(W({"cv", "savetostring"}), "state-written-by-the-engine-path", px.state_text());
  {
    std::string l, lb;
    for (auto &n : sc.cvn) l += (l.size() ? " " : "") + n;
    for (auto &n : sc.bn) lb += (lb.size() ? " " : "") + n;
    c.text(W({"cv", "list"}), "configured-names", l);
    c.text(W({"cv", "list", "colvars"}), "configured-names", l);
    c.text(W({"cv", "list", "biases"}), "configured-names", lb, 2);
  }
  c.text(W({"cv", "version"}), "version-macro", COLVARS_VERSION);
  c.text(W({"cv", "units"}), "engine-units", px.units);
  c.nums(W({"cv", "timestep"}), "engine-timestep", {px.dt()}, 6);
  c.nums(W({"cv", "targettemperature"}), "engine-temperature", {sc.T}, 6);
  c.text(W({"cv", "getconfig"}), "internal-config", cm->get_config());
  {
    // frame line: step, then the values of the variables among the printed numbers
    c.one("printframe");
    SR s = cvs(px, W({"cv", "printframe"}));
    std::vector<double> g;
    parse_nums(s.out, g);
    if (s.rc != 0 || g.empty() || g[0] != (double) cm->it) c.bad("printframe", "step-column", s.out, std::to_string(cm->it));
    else {
      size_t pos = 1;
      for (colvar *cv : *(cm->variables())) {
        std::vector<double> want;
        cvv(cv->x_reported, want);
        bool found = false;
        for (size_t p = pos; p + want.size() <= g.size() && !found; p++) {
          bool m = true;
          for (size_t k = 0; k < want.size(); k++) if (!eq_at(g[p + k], want[k], 15)) m = false;
          if (m) { found = true; pos = p + want.size(); }
        }
        if (!found) { c.bad("printframe", "value-of-" + cv->name + "-missing", s.out, c.vs(want)); break; }
      }
    }
  }

  // ---- variables
  for (int vi = 0; vi < 2; vi++) {
    std::string const &n = sc.cvn[vi];
    colvar *cv = px.cv(n);
    if (!cv) { c.bad("colvar " + n, "object-missing", "", ""); continue; }
    std::vector<double> val, fa, ft;
    cvv(cv->x_reported, val); cvv(cv->is_enabled(colvardeps::f_cv_extended_Lagrangian) ? cv->fr : cv->f, fa); cvv(cv->ft_reported, ft);
    c.nums(W({"cv", "colvar", n, "value"}), "internal-value", val, 15);
    c.nums(W({"cv", "colvar", n, "getappliedforce"}), "internal-applied-force", fa, 15);
    c.nums(W({"cv", "colvar", n, "gettotalforce"}), "internal-total-force", ft, 15);
    c.nums(W({"cv", "colvar", n, "getgradients"}), "internal-gradients", rv(cv->atomic_gradients), 15);
    c.nums(W({"cv", "colvar", n, "width"}), "internal-width", {cv->width}, 15);
    c.text(W({"cv", "colvar", n, "getconfig"}), "configuration-given", sc.cvc[vi].substr(sc.cvc[vi].find('\n') + 1, sc.cvc[vi].rfind('}') - sc.cvc[vi].find('\n') - 1), 1);
    std::vector<std::vector<int>> gr = groups_of(sc, vi);
    std::set<int> ids;
    std::string gl;
    for (auto &g : gr) { gl += "{"; for (int a : g) { ids.insert(a); gl += std::to_string(a) + " "; } gl += "} "; }
    c.nums(W({"cv", "colvar", n, "getatomids"}), "configured-atoms", std::vector<double>(ids.begin(), ids.end()), 15);
    c.text(W({"cv", "colvar", n, "getatomgroups"}), "configured-groups", gl);
    for (auto &fn : {std::string("active"), std::string("collect_gradient"), std::string("total_force"), std::string("apply_force"), std::string("running_average")}) {
      int fid = -1;
      for (size_t k = 0; k < cv->features().size(); k++) if (cv->features()[k]->description == fn) fid = (int) k;
      if (fid >= 0 && cv->is_available(fid)) c.nums(W({"cv", "colvar", n, "get", fn}), "internal-flag", {cv->feature_states[fid].enabled ? 1.0 : 0.0}, 15);
    }
  }
  // ---- biases
  for (int bi = 0; bi < 2; bi++) {
    std::string const &n = sc.bn[bi];
    colvarbias *b = px.bias(n);
    if (!b) { c.bad("bias " + n, "object-missing", "", ""); continue; }
    c.nums(W({"cv", "bias", n, "energy"}), "internal-energy", {b->bias_energy}, 6);
    std::string ty = sc.bc[bi].substr(0, sc.bc[bi].find(' '));
    c.text(W({"cv", "bias", n, "type"}), "configured-type", ty, 3);
    c.text(W({"cv", "bias", n, "type"}), "internal-type", b->bias_type);
    c.text(W({"cv", "bias", n, "getconfig"}), "configuration-given", sc.bc[bi].substr(sc.bc[bi].find('\n') + 1, sc.bc[bi].rfind('}') - sc.bc[bi].find('\n') - 1), 1);
    {
      c.one("bias " + n + " savetostring");
      SR s = cvs(px, W({"cv", "bias", n, "savetostring"}));
      std::string st = px.state_text();
      // the per-bias string is the bias's block of the module state (compared without indentation / blank lines)
      auto squeeze = [](std::string const &t) { std::string o; for (char ch : t) if (ch != ' ' && ch != '\n' && ch != '\t') o += ch; return o; };
      if (s.rc != 0 || s.out.empty() || squeeze(st).find(squeeze(s.out)) == std::string::npos) c.bad("bias " + n + " savetostring", "not-the-block-of-the-module-state", s.out, st);
    }
    int fid = -1;
    for (size_t k = 0; k < b->features().size(); k++) if (b->features()[k]->description == "active") fid = (int) k;
    if (fid >= 0) c.nums(W({"cv", "bias", n, "get", "active"}), "internal-flag", {b->feature_states[fid].enabled ? 1.0 : 0.0}, 15);
  }

  // ---- own arithmetic (scenario A: d = |x3 - com(x1,x2)|, v = com(x5,x6) - x4, harmonic on v, ABF on d)
  if (sc.id == "A") {
    auto X = [&](int a) { return px.x[a]; };
    double m1 = px.m[0], m2 = px.m[1], m5 = px.m[4], m6 = px.m[5];
    cvm::rvector c12 = (m1 * X(0) + m2 * X(1)) / (m1 + m2);
    cvm::rvector dv = X(2) - c12;
    double d = std::sqrt(dv.x * dv.x + dv.y * dv.y + dv.z * dv.z);
    cvm::rvector u = dv / d;
    cvm::rvector v = (m5 * X(4) + m6 * X(5)) / (m5 + m6) - X(3);
    c.nums(W({"cv", "colvar", "d", "value"}), "own-arithmetic", {d}, 15, 1e-12);
    c.nums(W({"cv", "colvar", "v", "value"}), "own-arithmetic", {v.x, v.y, v.z}, 15, 1e-12);
    double k = 3.0, cx[3] = {1.0, 0.5, -0.5}, vv[3] = {v.x, v.y, v.z}, e = 0, fv[3];
    for (int i = 0; i < 3; i++) { e += 0.5 * k * (vv[i] - cx[i]) * (vv[i] - cx[i]); fv[i] = -k * (vv[i] - cx[i]); }
    c.nums(W({"cv", "bias", "h", "energy"}), "own-arithmetic", {e}, 6, 1e-12);
    c.nums(W({"cv", "colvar", "v", "getappliedforce"}), "own-arithmetic", {fv[0], fv[1], fv[2]}, 15, 1e-11);
    c.nums(W({"cv", "colvar", "d", "getgradients"}), "own-arithmetic",
           {-u.x * m1 / (m1 + m2), -u.y * m1 / (m1 + m2), -u.z * m1 / (m1 + m2), -u.x * m2 / (m1 + m2), -u.y * m2 / (m1 + m2), -u.z * m2 / (m1 + m2), u.x, u.y, u.z}, 15, 1e-12);
    // ABF grid: bin of d and visits of that bin, counted here
    int bin = (int) std::floor((d - 0.0) / 0.5);
    h.abf_bin_visits[bin]++;
    c.nums(W({"cv", "bias", "a", "bin"}), "own-arithmetic", {(double) bin}, 15);
    c.nums(W({"cv", "bias", "a", "binnum"}), "own-arithmetic", {16.0}, 15);
    {
      colvarbias_abf *ab = dynamic_cast<colvarbias_abf *>(px.bias("a"));
      std::vector<int> ix(1, bin);
      if (ab && bin >= 0 && bin < 16) {
        c.nums(W({"cv", "bias", "a", "bincount"}), "internal-sample-count", {(double) ab->samples->value(ix)}, 15);
        c.nums(W({"cv", "bias", "a", "bincount", std::to_string(bin)}), "internal-sample-count", {(double) ab->samples->value(ix)}, 15);
        // every visit of a bin after the first step of the run is one sample, now or (lagging total forces) one step later
        long v = 0; for (auto &kv : h.abf_bin_visits) v += kv.second;
        long tot = 0; for (int b2 = 0; b2 < 16; b2++) { std::vector<int> j(1, b2); tot += (long) ab->samples->value(j); }
        if (c.variant != 1) {
          c.one("bias a samples total");
          if (!(tot == v - 1 || (!c.same_step && tot == std::max(0L, v - 2)))) c.bad("bias a bincount", "total-samples-vs-own-count-of-visits", std::to_string(tot), std::to_string(v - 1));
        }
      }
    }
    // forces on the atoms = sum over variables of (script: applied force) x (gradient), all from script numbers
    {
      c.one("atom-forces-from-script-numbers");
      SR fd = cvs(px, W({"cv", "colvar", "d", "getappliedforce"}));
      SR af = cvs(px, W({"cv", "getatomappliedforces"}));
      SR id = cvs(px, W({"cv", "getatomids"}));
      std::vector<double> gfd, gaf, gid;
      parse_nums(fd.out, gfd); parse_nums(af.out, gaf); parse_nums(id.out, gid);
      bool okk = gfd.size() == 1 && gaf.size() == 3 * gid.size();
      std::map<int, cvm::rvector> want;
      if (okk) {
        double f = gfd[0];
        want[0] = (-f * m1 / (m1 + m2)) * u; want[1] = (-f * m2 / (m1 + m2)) * u; want[2] = f * u;
        cvm::rvector F(fv[0], fv[1], fv[2]);
        want[3] = -1.0 * F; want[4] = (m5 / (m5 + m6)) * F; want[5] = (m6 / (m5 + m6)) * F;
        for (size_t i = 0; i < gid.size() && okk; i++) {
          cvm::rvector w = want[(int) gid[i]];
          double sc_ = std::max(1.0, std::fabs(f) + std::fabs(fv[0]) + std::fabs(fv[1]) + std::fabs(fv[2]));
          if (!close_rel(gaf[3 * i], w.x, sc_) || !close_rel(gaf[3 * i + 1], w.y, sc_) || !close_rel(gaf[3 * i + 2], w.z, sc_)) okk = false;
        }
      }
      if (!okk) c.bad("getatomappliedforces", "differs-from-script-applied-force-times-gradient", af.out, "f_d=" + fd.out);
    }
  }
  if (sc.id == "C") {
    // running average over the last 2 values, own arithmetic on the values returned by the script
    SR s = cvs(px, W({"cv", "colvar", "z", "value"}));
    std::vector<double> g; parse_nums(s.out, g);
    if (g.size() == 1) h.zvals.push_back(g[0]);
    colvar *cv = px.cv("z");
    std::vector<double> ra; cvv(cv->runave, ra);
    c.nums(W({"cv", "colvar", "z", "run_ave"}), "internal-running-average", ra, 15);
    if (h.zvals.size() >= 3 && c.variant != 1) {
      size_t n = h.zvals.size();
      c.nums(W({"cv", "colvar", "z", "run_ave"}), "own-arithmetic", {0.5 * (h.zvals[n - 1] + h.zvals[n - 2])}, 15, 1e-12);
    }
    // histogram restraint-free bias g: bin of z
    (void) nsteps_done;
  }
}

// A variable made of two components, one of which is switched off and on again from the script (cvcflags), with the
// per-atom gradients collected on request: value, gradients, applied force and the forces handed to the engine are
// compared with own arithmetic on the current coordinates, which knows which component is active.
static void components_case(Result &r, bool same_step, long nsteps)
{
  Scn sc; sc.id = "D"; sc.natoms = 6;
  vproxy *px = new_px(sc, same_step);
  std::string conf =
      "colvar {\n name s\n distance {\n componentCoeff 1.5\n group1 { atomNumbers 1 }\n group2 { atomNumbers 2 }\n }\n"
      " distance {\n componentCoeff -2.0\n group1 { atomNumbers 3 }\n group2 { atomNumbers 4 }\n }\n}\n"
      "harmonic {\n name h\n colvars s\n centers 0.5\n forceConstant 2.0\n}\n";
  if (px->config(conf) != 0) { fprintf(stderr, "HARNESS-ERROR: part 2 components configuration rejected: %s\n", px->errtxt.c_str()); _exit(3); }
  if (cvs(*px, W({"cv", "colvar", "s", "set", "collect_gradient", "1"})).rc != 0) { fprintf(stderr, "HARNESS-ERROR: collect_gradient\n"); _exit(2); }
  bool on2 = true;
  auto bad = [&](long st, std::string const &what, std::string const &got, std::string const &want) {
    r.violation("C20:agree:two-component-variable:" + what + (on2 ? "" : ":second-component-switched-off"),
                "{\"part\":2,\"scenario\":\"D\",\"total_forces_same_step\":" + std::string(same_step ? "true" : "false") + ",\"after_engine_step\":" + std::to_string(st) +
                ",\"second_component_active\":" + (on2 ? "true" : "false") + ",\"script_returned\":\"" + jesc(got.substr(0, 300)) + "\",\"own_arithmetic\":\"" + jesc(want.substr(0, 300)) + "\"}");
  };
  for (long s = 0; s < nsteps; s++) {
    // the second component is switched off before step 2 and on again before step 4
    if (s == 2 || s == 4) {
      on2 = (s == 4);
      SR f = cvs(*px, W({"cv", "colvar", "s", "cvcflags", on2 ? "1 1" : "1 0"}));
      r.count("transitions");
      if (f.rc != 0) { bad(s, "cvcflags-refused", f.out + f.msgs, ""); break; }
    }
    place(*px, s);
    if (px->step(s) != 0) { bad(s, "step-fails", px->errtxt, ""); break; }
    r.count("transitions");
    cvm::rvector d1 = px->x[1] - px->x[0], d2 = px->x[3] - px->x[2];
    double v = 1.5 * d1.norm() + (on2 ? -2.0 * d2.norm() : 0.0);
    double f = -2.0 * (v - 0.5);
    // per-atom gradients, in the order of the sorted atom ids 0..3
    std::vector<cvm::rvector> g(4);
    g[0] = -1.5 * d1.unit(); g[1] = 1.5 * d1.unit();
    g[2] = on2 ? 2.0 * d2.unit() : cvm::rvector(0, 0, 0); g[3] = on2 ? -2.0 * d2.unit() : cvm::rvector(0, 0, 0);
    auto cmp = [&](std::vector<std::string> const &w, std::string const &what, std::vector<double> const &want) {
      r.count("evaluations"); r.count("p2_comparisons");
      r.seen("nontrivial", "p2:D:" + std::to_string(same_step) + ":" + std::to_string(s) + ":" + what);
      SR q = cvs(*px, w);
      std::vector<double> got;
      std::string ws; for (double d : want) ws += num(d) + " ";
      if (q.rc != 0 || !parse_nums(q.out, got) || got.size() != want.size()) { bad(s, what + ":shape", q.out + q.msgs, ws); return; }
      for (size_t i = 0; i < got.size(); i++) if (!eq_at(got[i], want[i], 15, 1e-11)) { bad(s, what, q.out, ws); return; }
    };
    cmp(W({"cv", "colvar", "s", "value"}), "value", {v});
    cmp(W({"cv", "colvar", "s", "getappliedforce"}), "applied-force", {f});
    cmp(W({"cv", "colvar", "s", "getatomids"}), "atom-ids", {0, 1, 2, 3});
    cmp(W({"cv", "colvar", "s", "getgradients"}), "gradients", rv(g));
    std::vector<cvm::rvector> af(4);
    for (int a = 0; a < 4; a++) af[a] = f * g[a];
    cmp(W({"cv", "getatomappliedforces"}), "atom-forces-are-applied-force-times-gradient", rv(af));
    std::vector<double> eng;
    for (int a = 0; a < 4; a++) { eng.push_back(px->fapp[a].x); eng.push_back(px->fapp[a].y); eng.push_back(px->fapp[a].z); }
    std::vector<double> afv = rv(af);
    for (size_t i = 0; i < afv.size(); i++) if (!eq_at(eng[i], afv[i], 15, 1e-11)) { bad(s, "forces-received-by-the-engine", num(eng[i]), num(afv[i])); break; }
    r.seen("states", "D" + std::to_string(same_step) + std::to_string(s) + num(v));
  }
  delete px;
}

// "script-driven actions have the same effect as the equivalent configuration-file path": a variable whose component
// coefficient (and exponent) is changed with "cv colvar <name> modifycvcs" against a twin defined with that coefficient
// in the configuration, on the same atoms, each with its own restraint and total-force calculation.
static void modifycvcs_case(Result &r, bool same_step, long nsteps, bool periodic = false)
{
  Scn sc; sc.id = "E"; sc.natoms = 6;
  vproxy *px = new_px(sc, same_step);
  auto cvdef = [periodic](std::string const &name, std::string const &coeff) {
    if (periodic)   // (a periodic component: with a coefficient other than 1 the variable is no longer periodic)
      return "colvar {\n name " + name + "\n dihedral {\n componentCoeff " + coeff + "\n group1 { atomNumbers 1 }\n group2 { atomNumbers 2 }\n group3 { atomNumbers 3 }\n group4 { atomNumbers 4 }\n }\n}\n";
    return "colvar {\n name " + name + "\n outputTotalForce on\n distance {\n componentCoeff " + coeff + "\n group1 { atomNumbers 1 2 }\n group2 { atomNumbers 3 }\n }\n}\n";
  };
  std::string const hpar = periodic ? "centers -300.0\n forceConstant 0.01" : "centers 0.5\n forceConstant 2.0";
  std::string conf = cvdef("t", "2.0") + cvdef("u", "1.0") +
                     "harmonic {\n name ht\n colvars t\n " + hpar + "\n}\nharmonic {\n name hu\n colvars u\n " + hpar + "\n}\n";
  if (px->config(conf) != 0) { fprintf(stderr, "library refused the modifycvcs scenario: %s\n", px->errtxt.c_str()); _exit(3); }
  for (const char *n : {"t", "u"}) if (cvs(*px, W({"cv", "colvar", n, "set", "collect_gradient", "1"})).rc != 0) { fprintf(stderr, "HARNESS-ERROR: collect_gradient\n"); _exit(2); }
  auto bad = [&](long st, std::string const &what, std::string const &got, std::string const &want) {
    r.violation(std::string("C20:agree:modifycvcs-differs-from-the-same-coefficient-in-the-configuration:") + (periodic ? "periodic-component:" : "") + what,
                "{\"part\":2,\"scenario\":\"E\",\"total_forces_same_step\":" + std::string(same_step ? "true" : "false") + ",\"after_engine_step\":" + std::to_string(st) +
                ",\"variable_changed_by_script\":\"" + jesc(got.substr(0, 300)) + "\",\"variable_defined_in_configuration\":\"" + jesc(want.substr(0, 300)) + "\"}");
  };
  for (long s = 0; s < nsteps; s++) {
    if (s == 1) {
      SR f = cvs(*px, W({"cv", "colvar", "u", "modifycvcs", "\"componentCoeff 2.0\""}));
      r.count("transitions");
      if (f.rc != 0) { bad(s, "modifycvcs-refused", f.out + f.msgs, ""); break; }
    }
    place(*px, s);
    for (int a = 0; a < 6; a++) px->fsys[a] = cvm::rvector(0.3 * (a + 1) - 0.2 * s, -0.1 * a, 0.05 * s * (a % 2));
    if (px->step(s) != 0) { bad(s, "step-fails", px->errtxt, ""); break; }
    r.count("transitions");
    if (s < 2) continue;   // (with total forces one step late, the force measured at step 1 still belongs to the old coefficient)
    for (const char *q : {"value", "getappliedforce", "gettotalforce", "getgradients", "energy"}) {
      if (periodic && !strcmp(q, "gettotalforce")) continue;
      r.count("evaluations"); r.count("p2_comparisons");
      r.seen("nontrivial", "p2:E:" + std::to_string(same_step) + std::to_string(periodic) + ":" + std::to_string(s) + ":" + q);
      bool const en = !strcmp(q, "energy");   // (the energy of the restraint on each variable)
      SR a = en ? cvs(*px, W({"cv", "bias", "hu", "energy"})) : cvs(*px, W({"cv", "colvar", "u", q})), b = en ? cvs(*px, W({"cv", "bias", "ht", "energy"})) : cvs(*px, W({"cv", "colvar", "t", q}));
      std::vector<double> ga, gb;
      if (a.rc != 0 || b.rc != 0 || !parse_nums(a.out, ga) || !parse_nums(b.out, gb) || ga.size() != gb.size()) { bad(s, std::string(q) + ":shape", a.out + a.msgs, b.out + b.msgs); break; }
      bool same = true;
      for (size_t i = 0; i < ga.size(); i++) if (!eq_at(ga[i], gb[i], 15, 1e-11)) same = false;
      if (!same) { bad(s, q, a.out, b.out); break; }
    }
    r.seen("states", "E" + std::to_string(same_step) + std::to_string(s));
  }
  delete px;
}

// Gradients reported for a variable whose group is fitted (on itself, or on a separate fitting group): the forces the engine
// receives must be the applied force times the reported per-atom gradients, on every atom.
static void fitted_gradients_case(Result &r, bool same_step, long nsteps, bool separate_fitting_group)
{
  Scn sc; sc.id = "F"; sc.natoms = 6;
  vproxy *px = new_px(sc, same_step);
  std::string conf = std::string("colvar {\n name s\n distance {\n group1 {\n atomNumbers 1 2 3\n centerToReference on\n rotateToReference on\n") +
                     (separate_fitting_group ? " fittingGroup {\n atomNumbers 4 5 6\n }\n refPositions (0.0, 0.0, 0.0) (1.4, 0.1, 0.0) (0.2, 1.3, 0.4)\n"
                                             : " refPositions (0.0, 0.0, 0.0) (1.4, 0.1, 0.0) (0.2, 1.3, 0.4)\n") +
                     " }\n group2 {\n dummyAtom (0.5, -0.7, 1.1)\n }\n }\n}\nharmonic {\n name h\n colvars s\n centers 0.5\n forceConstant 2.0\n}\n";
  if (px->config(conf) != 0) { fprintf(stderr, "library refused the fitted-gradients scenario: %s\n", px->errtxt.c_str()); _exit(3); }
  if (cvs(*px, W({"cv", "colvar", "s", "set", "collect_gradient", "1"})).rc != 0) { fprintf(stderr, "HARNESS-ERROR: collect_gradient\n"); _exit(2); }
  for (long s = 0; s < nsteps; s++) {
    place(*px, s);
    if (px->step(s) != 0) { r.violation("C20:agree:fitted-group-gradients:step-fails", "{\"part\":2,\"scenario\":\"F\"}"); break; }
    r.count("transitions");
    r.count("evaluations"); r.count("p2_comparisons");
    r.seen("nontrivial", "p2:F:" + std::to_string(same_step) + std::to_string(separate_fitting_group) + ":" + std::to_string(s));
    SR ids = cvs(*px, W({"cv", "colvar", "s", "getatomids"})), gr = cvs(*px, W({"cv", "colvar", "s", "getgradients"})), fa = cvs(*px, W({"cv", "colvar", "s", "getappliedforce"}));
    std::vector<double> vi, vg, vf;
    if (ids.rc || gr.rc || fa.rc || !parse_nums(ids.out, vi) || !parse_nums(gr.out, vg) || !parse_nums(fa.out, vf) || vg.size() != 3 * vi.size() || vf.size() != 1) {
      r.violation("C20:agree:fitted-group-gradients:shape", "{\"part\":2,\"scenario\":\"F\",\"ids\":\"" + jesc(ids.out) + "\",\"gradients\":\"" + jesc(gr.out.substr(0, 200)) + "\"}");
      break;
    }
    std::vector<cvm::rvector> want(6, cvm::rvector(0, 0, 0));
    for (size_t k = 0; k < vi.size(); k++) { int a = (int) vi[k]; if (a >= 0 && a < 6) want[a] = vf[0] * cvm::rvector(vg[3 * k], vg[3 * k + 1], vg[3 * k + 2]); }
    bool bad = false;
    double worst = 0;
    for (int a = 0; a < 6; a++) { double dv = (px->fapp[a] - want[a]).norm(); worst = std::max(worst, dv); if (dv > 1e-10 * std::max(1.0, px->fapp[a].norm())) bad = true; }
    if (bad) {
      r.violation(std::string("C20:agree:fitted-group-gradients:engine-forces-are-not-applied-force-times-reported-gradients:") + (separate_fitting_group ? "separate-fitting-group" : "group-fitted-on-itself"),
                  "{\"part\":2,\"scenario\":\"F\",\"total_forces_same_step\":" + std::string(same_step ? "true" : "false") + ",\"after_engine_step\":" + std::to_string(s) +
                  ",\"applied_force\":" + num(vf[0]) + ",\"largest_difference\":" + num(worst) + ",\"gradients\":\"" + jesc(gr.out.substr(0, 300)) + "\"}");
      break;
    }
  }
  delete px;
}

void part2(std::vector<Scn> const &scs, Args const &args, Result &total)
{
  // (scenario, timing convention, variant): variant 0 plain run, 1 resumed from the donor state, 2 step counter beyond 2^31
  struct Job { int si; bool same; int variant; };
  std::vector<Job> jobs;
  for (int si = 0; si < (int) scs.size(); si++) for (int same = 0; same < 2; same++) for (int var = 0; var < 3; var++) jobs.push_back({si, same != 0, var});
  jobs.push_back({-1, true, 0});   // two-component variable with cvcflags (own scenario D)
  jobs.push_back({-2, false, 0});  // modifycvcs against the same coefficient in the configuration (own scenario E)
  jobs.push_back({-2, true, 0});
  jobs.push_back({-5, true, 0});   // ... of a periodic component
  jobs.push_back({-3, true, 0});   // gradients of a group fitted on itself (own scenario F)
  jobs.push_back({-4, true, 0});   // ... and with a separate fitting group
  jobs.push_back({-1, false, 0});
  long nsteps = args.thorough() ? 8 : 5;
  std::string scratch = args.kv.count("scratch") ? args.kv.at("scratch") : ".";
  bool ok = run_sharded((int) std::min<size_t>(args.jobs, jobs.size()), [&](int shard, int nsh, Result &r) {
    g_wdir = scratch + "/p2w" + std::to_string(shard) + "x";
    mkdir(g_wdir.c_str(), 0755);
    if (chdir(g_wdir.c_str()) != 0) herr("chdir");
    for (size_t j = shard; j < jobs.size(); j += nsh) {
      run_cases_forked(j, j + 1, [&](size_t ji, Result &rr) {
        Job const &jb = jobs[ji];
        if (jb.si == -2 || jb.si == -5) { modifycvcs_case(rr, jb.same, std::max<long>(nsteps, 6), jb.si == -5); return; }
        if (jb.si == -3 || jb.si == -4) { fitted_gradients_case(rr, jb.same, std::max<long>(nsteps, 4), jb.si == -4); return; }
        if (jb.si < 0) { components_case(rr, jb.same, std::max<long>(nsteps, 6)); return; }
        Scn const &sc = scs[jb.si];
        vproxy *px = new_px(sc, jb.same);
        if (px->config(all_conf(sc)) != 0) { fprintf(stderr, "HARNESS-ERROR: part 2 configuration rejected: %s\n", px->errtxt.c_str()); _exit(3); }
        // gradients of the first (scalar) variable are collected on request
        SR g = cvs(*px, W({"cv", "colvar", sc.cvn[0], "set", "collect_gradient", "1"}));
        // atom lists of a variable are kept only on request (feature collect_atom_ids)
        SR g2 = cvs(*px, W({"cv", "colvar", sc.cvn[1], "set", "collect_atom_ids", "1"}));
        if (g2.rc != 0) { fprintf(stderr, "HARNESS-ERROR: cannot enable collect_atom_ids: %s\n", (g2.out + g2.msgs).c_str()); _exit(2); }
        if (g.rc != 0) { fprintf(stderr, "HARNESS-ERROR: cannot enable collect_gradient: %s\n", (g.out + g.msgs).c_str()); _exit(2); }
        long e0 = 0, abs0 = 0;
        if (jb.variant == 1) { px->queue_state_text(sc.state3); e0 = 2; abs0 = 2; }  // the donor stopped at step 2; a resumed run repeats it
        if (jb.variant == 2) { px->colvars->it = px->colvars->it_restart = 3000000000LL; abs0 = 3000000000LL; }
        Hist h;
        for (long s = 0; s < nsteps; s++) {
          place(*px, e0 + s);
          std::vector<cvm::rvector> ptb = px->prev_total;
          int rc = px->step(e0 + s);
          if (rc != 0) { fprintf(stderr, "HARNESS-ERROR: part 2 step failed: %s\n", px->errtxt.c_str()); _exit(3); }
          rr.count("transitions");
          Ctx c{&rr, &sc, px, s, jb.same, jb.variant, ptb, abs0};
          std::string before = observe(*px);
          battery(c, h);
          // the whole battery is made of queries: nothing may have changed
          rr.count("evaluations");
          if (observe(*px) != before) rr.violation("C20:agree:query-battery-changed-the-module", "{\"part\":2,\"scenario\":\"" + sc.id + "\",\"after_engine_step\":" + std::to_string(s) + ",\"first_difference\":\"" + jesc(first_diff(before, observe(*px))) + "\"}");
          rr.seen("states", before);
        }
        delete px;
      }, [&](size_t ji, std::string const &kind, std::string const &tail) {
        r.violation("C20:crash:query-battery:" + kind, "{\"part\":2,\"scenario\":\"" + ((jobs[ji].si == -3 || jobs[ji].si == -4) ? std::string("F") : (jobs[ji].si == -2 || jobs[ji].si == -5) ? std::string("E") : (jobs[ji].si < 0 ? std::string("D") : scs[jobs[ji].si].id)) + "\",\"death\":\"" + jesc(kind) + "\",\"report\":\"" + jesc(tail) + "\"}");
      }, r);
    }
  }, total, 1800);
  if (!ok) exit(2);
}
