#include "c20_common.h"
void part2(std::vector<Scn> const &scs, Args const &args, Result &total) {}
