#!/bin/bash
# runall.sh [tier]  — run every check listed in lib/ready.txt and print one line each
T=${1:-quick}
cd "$(dirname "$0")"
for c in $(cat lib/ready.txt); do
  out=$(./vcheck $c --tier $T 2>&1); rc=$?
  echo "$c rc=$rc $(echo "$out" | tail -1 | cut -c1-170)"
  echo "$out" | grep -E "^VIOLATION|HARNESS|BUILD-ERROR" | head -5 | cut -c1-200
done
