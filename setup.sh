#!/bin/bash
# Offline setup after a fresh restore: pre-build the library variants so that the first check is fast.
cd "$(dirname "$0")"
python3 - <<'PY'
import sys; sys.path.insert(0, 'lib'); import vbuild
for v in ("plain", "asan", "shim"):
    vbuild.build_lib(v)
print("setup ok")
PY
